#!/bin/bash
# usage: verify_seeded.sh <seeded-id> ...   (e.g. C01-a)
# Confirms in a scratch worktree (outside /repo and /verif) that a seeded change compiles, passes
# the existing tests of its crate, and that its demonstration fails with the change and passes
# without it.  Writes /verif/seeded/<id>/verify.log and a one-line verdict.
# VSEED_TAG=<suffix> gives the run its own worktree and target directory (several runs in parallel);
# the tagged target directory is removed at the end.
export CARGO_NET_OFFLINE=true CARGO_TARGET_DIR=/tmp/vseed_target${VSEED_TAG}
BASE="${SEED_BASE:-d24f430}"
for ID in "$@"; do
  D=/verif/seeded/$ID; W=/tmp/vseed_wt${VSEED_TAG}; LOG=$D/verify.log
  git -C /repo worktree remove --force $W 2>/dev/null; rm -rf $W
  git -C /repo worktree add -q --detach $W $BASE || { echo "$ID worktree failed"; continue; }
  cd $W
  : > $LOG
  if grep -q "crates/polytune-server-core\|crates/polytune-http-server" $D/patch.diff; then PKG="-p polytune-server-core -p polytune-http-server"; else PKG="-p polytune"; fi
  git apply $D/patch.diff >>$LOG 2>&1 || { echo "$ID patch does not apply" | tee -a $LOG; continue; }
  echo "## existing tests with the change ($PKG)" >>$LOG
  timeout 3000 cargo nextest run --offline --no-fail-fast --test-threads 8 $PKG -E 'not test(eval_mixed_circuits) and not test(eval_garble_prg_3pc)' >>$LOG 2>&1
  SUITE=$?
  grep -E "^\s*Summary|tests run" $LOG | tail -1
  # install the demo
  if [ -f $D/demo.diff ]; then git apply $D/demo.diff >>$LOG 2>&1 || echo "demo.diff does not apply" >>$LOG;
  else
    NAME=$(cat $D/demo_name 2>/dev/null); [ -n "$NAME" ] || NAME=$(grep -o -E "tests/[a-z0-9_]+\.rs" $D/README.md | head -1); [ -n "$NAME" ] || NAME=tests/seeded_demo.rs
    if echo "$PKG" | grep -q server-core; then mkdir -p crates/polytune-server-core/tests; cp $D/demo_test.rs crates/polytune-server-core/$NAME; else cp $D/demo_test.rs $NAME; fi
  fi
  DEMO_CMD=$(cat $D/demo_cmd 2>/dev/null)
  if [ -z "$DEMO_CMD" ]; then
    T=$(git status --porcelain -uall | grep -v seeded_out | grep -o -E "tests/[a-z0-9_]+\.rs" | head -1 | sed -E 's#tests/(.*)\.rs#\1#')
    if echo "$PKG" | grep -q server-core; then PKGD="-p polytune-server-core"; else PKGD="$PKG"; fi
    if [ -n "$T" ]; then DEMO_CMD="cargo test --offline $PKGD --test $T"; else F=$(grep -o -E "(seed|seeded)_demo_[ab]" $D/README.md | head -1); DEMO_CMD="cargo test --offline $PKG --lib $F"; fi
  fi
  echo "## demo with the change: $DEMO_CMD" >>$LOG
  timeout 1500 $DEMO_CMD >>$LOG 2>&1; WITH=$?
  git apply -R $D/patch.diff >>$LOG 2>&1
  echo "## demo without the change" >>$LOG
  timeout 1500 $DEMO_CMD >>$LOG 2>&1; WITHOUT=$?
  echo "VERDICT $ID suite_exit=$SUITE demo_with_change_exit=$WITH demo_without_change_exit=$WITHOUT cmd=[$DEMO_CMD]" | tee -a $LOG
  cd /; git -C /repo worktree remove --force $W
done
[ -n "$VSEED_TAG" ] && rm -rf /tmp/vseed_target${VSEED_TAG}
