#!/usr/bin/env python3
"""Sensitivity harness: applies one hand-written mutation to /repo's working tree, runs the quick
tier of the properties expected to catch it, reverts.  Usage: selfmut.py [name ...]"""
import subprocess, sys, json, time, os
REPO='/repo'
M = {
 # name: (file, old, new, [checks])
 'c01_row3_flag': ('src/mpc/protocol.rs', 'let row3 = Share(s ^ s_x ^ s_y ^ true, &mac_s_key_r_1 ^ &mac_s_y_key_r_y);', 'let row3 = Share(s ^ s_x ^ s_y, &mac_s_key_r_1 ^ &mac_s_y_key_r_y);', ['C01']),
 'c01_xor_key_eval0': ('src/mpc/protocol.rs', '(&mac_r_key_s_1 ^ &mac_r_y_key_s_y).xor_key(p_eval, delta),', '(&mac_r_key_s_1 ^ &mac_r_y_key_s_y).xor_key(0, delta),', ['C01']),
 'c01_batch_mismatch': ('src/mpc/protocol.rs', '''        for and_shares in and_shares.chunks(batch_size)? {''', '''        for and_shares in and_shares.chunks(batch_size + 1)? {''', ['C01','C19']),
 'c05_send_all': ('src/mpc/protocol.rs', '''        p_out
            .iter()
            .copied()
            .filter(|p| *p != p_own)
            .map(async |p_out| {
                // TODO rework this to not allocate max_reg_count but only output size
                //  see https://github.com/sine-fdn/polytune/issues/113
                let mut outputs = vec![None; circ.max_reg_count];''', '''        (0..p_max)
            .filter(|p| *p != p_own)
            .map(async |p_out| {
                // TODO rework this to not allocate max_reg_count but only output size
                //  see https://github.com/sine-fdn/polytune/issues/113
                let mut outputs = vec![None; circ.max_reg_count];''', ['C05']),
 'c06_delta_const': ('src/mpc/protocol.rs', 'delta = Delta(random());\n        #[cfg', 'delta = Delta(42 + p_own as u128);\n        #[cfg', ['C06']),
 'c06_x_false': ('src/mpc/faand.rs', 'let mut x: Vec<bool> = (0..lprime).map(|_| random()).collect();', 'let mut x: Vec<bool> = (0..lprime).map(|j| j % 2 == 0 && random()).collect();', ['C06']),
 'c09_skip_none': ('src/mpc/protocol.rs', '''                let mut outputs = vec![None; circ.max_reg_count];
                for &out in &unqiue_output_regs {
                    let Share(bit, Auth(macs_and_keys)) = shares[out].clone();
                    if let Some((mac, _)) = macs_and_keys.get(p_out).copied() {
                        outputs[out] = Some((bit, mac));
                    }
                }''', '''                let mut outputs = vec![None; circ.max_reg_count];
                for &out in &unqiue_output_regs {
                    let Share(bit, Auth(macs_and_keys)) = shares[out].clone();
                    if let Some((mac, _)) = macs_and_keys.get(p_out).copied() {
                        outputs[out] = Some((bit, mac));
                    }
                }
                if outputs.iter().flatten().all(|(b, _)| !*b) { outputs.push(None); }''', ['C09','C01']),
 'c10_combine_x1': ('src/mpc/faand.rs', 'let zbit = z1.0 ^ z2.0 ^ d & x2.0;', 'let zbit = z1.0 ^ z2.0 ^ d & x1.0;', ['C10','C01']),
 'c10_dealer_or': ('src/mpc/fpre.rs', 'let c = a & b;', 'let c = a | b;', ['C10']),
 'c11_tweak': ('src/ot_core/kos.rs', '''            let x0 = self.ot.hash.tccr_hash_block(Block::from(j as u128), q);
            let x1 = x0 ^ *delta;''', '''            let x0 = self.ot.hash.tccr_hash_block(Block::from((j % 4096) as u128 + (j / 4000) as u128), q);
            let x1 = x0 ^ *delta;''', ['C11']),
 'c12_seq_broadcast': ('src/channel.rs', '''    let (_, responses) = try_join(send_fut, recv_fut).await?;
    Ok(responses)
}

/// Scatters different data''', '''    send_fut.await?;
    let responses = recv_fut.await?;
    Ok(responses)
}

/// Scatters different data''', ['C12']),
 'c18_no_input_len': ('src/mpc/protocol.rs', 'if *expected_inputs != inputs.len() {', 'if *expected_inputs > inputs.len() {', ['C18']),
 'c19_drop_seek': ('src/utils/file_or_mem_buf.rs', '''impl<'a, T> Drop for ChunkIter<'a, T> {
    fn drop(&mut self) {
        if let Self::ChunkedTmpFile { read, .. } = self {''', '''impl<'a, T> Drop for ChunkIter<'a, T> {
    fn drop(&mut self) {
        if let Self::ChunkedTmpFile { read, .. } = self && false {''', ['C19']),
 'c20_rng_counter': ('src/crypto/aes_rng.rs', '''            for block in chunk.iter_mut() {
                *block = aes::cipher::Array(self.0.core.state.to_le_bytes());
                self.0.core.state += 1;
            }''', '''            for block in chunk.iter_mut() {
                *block = aes::cipher::Array(self.0.core.state.to_le_bytes());
                self.0.core.state += 1;
            }
            if chunk.len() == AES_PAR_BLOCKS && self.0.core.state == 64 { self.0.core.state += 1; }''', ['C20']),
 'c20_tccr_tweak': ('src/crypto/aes_hash.rs', 'let mut x_enc_xor_tweak_enc = (Block::from(x_enc) ^ tweak).into();', 'let mut x_enc_xor_tweak_enc = (Block::from(x_enc) ^ (tweak & Block::from(u128::MAX >> 1))).into();', ['C20']),
 'c13_consts_ge': ('crates/polytune-server-core/src/state.rs', 'if self.consts.len() == typed_program.const_deps.len() {', 'if self.consts.len() >= typed_program.const_deps.len().min(1) {', ['C13']),
 'c16_no_hash_check': ('crates/polytune-server-core/src/state.rs', '''                let scheduled_hash = policy.program_hash();
                if request.program_hash != scheduled_hash {
                    ret_err(
                        validate_ret,
                        ValidateError::ProgramHashMismatch {
                            scheduled_hash,
                            requested_hash: request.program_hash,
                        },
                    );
                    return ControlFlow::Break(());
                }

                // validate and go to validated''', '''                let scheduled_hash = policy.program_hash();
                if request.program_hash.len() != scheduled_hash.len() {
                    ret_err(
                        validate_ret,
                        ValidateError::ProgramHashMismatch {
                            scheduled_hash,
                            requested_hash: request.program_hash,
                        },
                    );
                    return ControlFlow::Break(());
                }

                // validate and go to validated''', ['C16']),
 'c17_run_before_acquire': ('crates/polytune-server-core/src/state.rs', '''            self.permit = Some(
                Arc::clone(&self.concurrency)
                    .acquire_owned()
                    .await
                    .expect("is_closed checked in new()"),
            );
            let run_request = RunRequest {''', '''            self.permit = Arc::clone(&self.concurrency).try_acquire_owned().ok();
            let run_request = RunRequest {''', ['C17']),
 'c15_cancel_no_notify': ('crates/polytune-server-core/src/state.rs', '''            PolicyStateKind::AwaitingValidation { policy, client, .. }
            | PolicyStateKind::Validated { policy, client, .. }''', '''            PolicyStateKind::AwaitingValidation { .. } => {
                let _ = ret.send(Ok(()));
                return;
            }
            PolicyStateKind::Validated { policy, client, .. }''', ['C15']),
 'c14_run_init_ok': ('crates/polytune-server-core/src/state.rs', '''            state => {
                if let Some(ret) = run_ret {
                    ret_err(
                        ret,
                        RunError::InvalidState {''', '''            PolicyStateKind::Init => {
                if let Some(ret) = run_ret {
                    let _ = ret.send(Ok(()));
                }
            }
            state => {
                if let Some(ret) = run_ret {
                    ret_err(
                        ret,
                        RunError::InvalidState {''', ['C14']),
}
def sh(cmd, **kw):
    return subprocess.run(cmd, shell=True, capture_output=True, text=True, **kw)
def main():
    names = sys.argv[1:] or list(M)
    assert sh(f'git -C {REPO} status --porcelain').stdout.strip()=='' , 'repo not clean'
    results={}
    for n in names:
        f,old,new,checks = M[n]
        p=os.path.join(REPO,f); s=open(p).read()
        if s.count(old)!=1:
            print(n,'PATTERN NOT UNIQUE',s.count(old)); continue
        open(p,'w').write(s.replace(old,new))
        try:
            for c in checks:
                t=time.time()
                r=sh(f'cd /verif && PVF_NO_EVIDENCE=1 ./bin/check {c} quick')
                viol=[l for l in r.stdout.splitlines() if l.startswith('violation:')]
                print(f'{n:28s} {c} exit={r.returncode} {time.time()-t:5.1f}s {viol[0][:160] if viol else r.stderr.strip().splitlines()[-1][:160] if r.returncode==2 and r.stderr.strip() else ""}', flush=True)
                results[(n,c)]=r.returncode
        finally:
            sh(f'git -C {REPO} checkout -- .')
    sh('rm -f /verif/replays/*.json')
main()
