#!/usr/bin/env python3
"""Regenerates /verif/MANIFEST.json (claims, commands, hook commits)."""
import json, subprocess
props=[json.loads(l) for l in open('/verif/properties.jsonl')]
log=subprocess.check_output(['git','-C','/repo','log','--format=%h %s']).decode().splitlines()
hook_commits=[l.split()[0] for l in log if l.split(' ',1)[1].startswith('verif hooks')][::-1]
lvl={
 'C01':('exploration','property-based testing (proptest) of real executions in a deterministic simulator vs. a clear-text interpreter'),
 'C02':('fault_enumeration','systematic fault enumeration over every message of the corrupted party (structure-aware + byte mutators, paired / zero-element mutations, taps incl. attacker-chosen garbled-row plaintext, rushing cheater that reflects one to three consecutive symmetric rounds) vs. an allowed-output-set oracle; thorough tier repeats the quick case set on a build without debug assertions'),
 'C03':('fault_enumeration','systematic enumeration of a must-detect table over the online-phase messages (single and paired alterations); abort-within-round oracle on the recorded history; the case set also runs on a build without debug assertions'),
 'C04':('fault_enumeration','must-detect table enumeration (incl. taps, OT-choice index sets, rushing / reflected rounds) + property-based history invariant (commit before reveal) + transcript predictor for challenge coins'),
 'C05':('exploration','property-based testing with a history invariant over the recorded, decoded traffic, in honest runs and against a curious output party that marks extra registers'),
 'C06':('exploration','repeated-execution statistics (binomial balance test with fixed tail bound), canary search, bit-position disclosure test over 64 executions, GF(2) solve of the peer\'s linear view, curious OT-extension sender, uniqueness over generated executions'),
 'C07':('fault_enumeration','pool scan (1-, 2-, 3-subset XOR search, curious-evaluator row probe, repeated-field test) over generated honest runs (incl. multi-batch circuits) and enumerated deviations'),
 'C08':('fault_enumeration','systematic enumeration of byte/tree mutations, drops, duplicates and crash points for every message, plus mutations below the encryption (garbled-row plaintext) and of committed strings; libFuzzer target c08_msg and a run on a build without debug assertions in the thorough tier'),
 'C09':('exploration','metamorphic property-based testing: traffic shape equal across executions of one public configuration; garbled-row ciphertext length equal across value-magnitude classes (proptest, hook garble_row_roundtrip)'),
 'C10':('exploration','property-based testing of the preprocessing relations through plain-typed wrappers'),
 'C11':('exploration','systematic length enumeration + property-based testing of correlated OT'),
 'C12':('exploration','schedule exploration (random, PCT, starvation, lazy delivery, choice vectors; sends accepted by the scheduler) with exact deadlock detection and a one-operation-per-peer monitor'),
 'C13':('exploration','stateless exhaustive DFS over RPC orders with real sessions (bounded exhaustive for n<=3) + strategy-driven paths with separately delivered responses'),
 'C14':('fault_enumeration','systematic injection of stray commands at every quiescent point and during MPC'),
 'C15':('fault_enumeration','systematic cancel injection at every point incl. while compiling, during MPC and after a rejected duplicate run'),
 'C16':('exploration','exhaustive DFS over orders for every mismatch kind'),
 'C17':('fault_enumeration','generated batches with interleaving choice vectors, single RPC failure injection, whole-session cancellation, two-cancel and cancel-at-delivery families'),
 'C18':('exploration','systematic enumeration of invalid arguments (incl. truncation aliases, every position of the output list), malformed circuits and two-call histories on reused circuit objects'),
 'C19':('exploration','model-based property testing of operation sequences (file vs memory vs Vec model); libFuzzer target c19_buf in the thorough tier'),
 'C20':('exploration','differential testing against harness-side reference implementations (systematic + proptest), stateful operation sequences on the generator (keystream membership, no reuse); libFuzzer target c20_prim in the thorough tier'),
}
notes={
 'C02':'single corrupted party; adversary = honest code + outbound proxy + taps; computational security of primitives assumed',
 'C03':'table rows are those the correct protocol detects with probability >= 1-2^-40 independent of secrets',
 'C04':'as C03; challenge predictor alarms only on exact 128-bit / full-permutation matches; four design-level known findings (one root cause) listed in known_findings.json',
 'C06':'statistical power limited to gross bias / reuse; false-alarm bound < 1.1e-7 per run',
 'C07':'chance hit <= F^3 * 2^-128; one inherent (WRK17 LaAND) known finding listed',
 'C08':'bounded time = bounded scheduler steps; allocation bound honest peak + 64 x delivered + 4 MiB',
 'C12':'interleavings are sampled, not exhaustive; per-pair FIFO links',
 'C13':'exhaustive at the level of coordination-RPC order for the listed configurations; MPC messages FIFO',
 'C15':'single-threaded runtime only (exact quiescence); multi-threaded runtime not claimed',
}
m={
 "version":1,
 "setup_cmd":"cd /verif/harness && CARGO_NET_OFFLINE=true cargo build --release --bin pvf && CARGO_NET_OFFLINE=true cargo build --profile relnd --bin pvf",
 "hooks":{"guard":"cargo feature __verif of the polytune crate (cfg(feature = \"__verif\"))","enable":"the harness crate /verif/harness depends on /repo by path with features [\"__verif\",\"__bench\"]; bin/check rebuilds it against /repo's working tree before every run","baseline_off_cmd":"cd /repo && cargo nextest run --workspace --no-fail-fast --test-threads 8 --offline || cargo test --workspace --no-fail-fast --offline","source_commits":hook_commits,"add_only":True},
 "engines":[
  {"name":"pvf-sim","path":"/verif/harness/src/sim","serves_properties":["C01","C02","C03","C04","C05","C06","C07","C08","C09","C10","C11","C12","C18","C19"],"kind_free_text":"deterministic single-threaded executor + scheduler-controlled, recording, adversarial network; proptest strategies; wire codec with structure-aware mutators"},
  {"name":"pvf-srv","path":"/verif/harness/src/srv","serves_properties":["C13","C14","C15","C16","C17"],"kind_free_text":"server-core explorer: in-process PolicyClient releasing RPC requests and responses one at a time, exact quiescence, stateless DFS, one world per worker process"},
  {"name":"pvf-prim","path":"/verif/harness/src/prim.rs","serves_properties":["C20"],"kind_free_text":"reference implementations: transpose by definition, schoolbook clmul, textbook AES-128, CTR"},
  {"name":"pvf-fuzz","path":"/verif/harness/fuzz","serves_properties":["C08","C19","C20"],"kind_free_text":"cargo-fuzz / libFuzzer targets (thorough tier) with the semantic oracle inside the target"}],
 "checks":[],
 "not_applicable":[],
 "notes":"see DESIGN.md; known findings in /verif/known_findings.json; exit code 2 = infrastructure/inconclusive (never a violation)"
}
for p in props:
    i=p['id']; cat,tech=lvl[i]
    m['checks'].append({"property_id":i,"quick_cmd":f"bin/check {i} quick","thorough_cmd":f"bin/check {i} thorough","evidence_file":f"/verif/evidence/{i}.json","replay_cmd_template":f"bin/check {i} --replay {{path}}","engine":"pvf","level_claimed":{"category":cat,"text":tech+"; holds on everything explored, no claim of absence","design_ref":"DESIGN.md section 3 "+i},"level_note":notes.get(i,"generated-input search, not exhaustive; SimNet models reliable per-pair FIFO links; engine coins are not seeded, oracles are coin-independent"),"technique":tech})
json.dump(m,open('/verif/MANIFEST.json','w'),indent=1)
print('hook commits',hook_commits)
