#!/bin/bash
# usage: regress_seeded.sh [id-glob]   - runs every seeded change against the first check that is recorded to catch it
cd /verif
export PVF_NO_SHRINK=1
for d in seeded/${1:-C*}; do
  id=$(basename $d); [ -f $d/meta.json ] || continue
  chk=$(python3 -c "import json;m=json.load(open('$d/meta.json'));print((m['caught_by_quick_tier_of'] or [''])[0])")
  [ -n "$chk" ] || { echo "$id (no check recorded)"; continue; }
  ./tools/run_seeded.sh $id $chk 2>&1 | grep -v conda | cut -c1-150
done
