#!/bin/bash
# usage: revert_fix.sh <fix-commit> <check> [<check> ...]
# Re-introduces a repaired defect by reverting its fix: commit in /repo's working tree (never
# committed), runs the quick tier of the given checks (expected: VIOLATION), restores the tree.
C=$1; shift
cd /verif
[ -z "$(git -C /repo status --porcelain)" ] || { echo "/repo not clean"; exit 2; }
git -C /repo show $C | git -C /repo apply -R --3way 2>/dev/null || git -C /repo show $C | git -C /repo apply -R || { echo "$C: cannot revert"; git -C /repo reset -q --hard HEAD; exit 2; }
for K in "$@"; do
  S=$(date +%s)
  OUT=$(PVF_NO_EVIDENCE=1 ./bin/check $K quick 2>&1); RC=$?
  echo "revert $C ($(git -C /repo log -1 --format=%s $C | cut -c1-60)) $K exit=$RC $(( $(date +%s) - S ))s $(echo "$OUT" | grep -m1 '^violation:' | cut -c1-200)"
done
git -C /repo reset -q --hard HEAD; git -C /repo checkout -- .
find /verif/replays -maxdepth 1 -type f -name '*.json' -delete
