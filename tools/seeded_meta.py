#!/usr/bin/env python3
"""Writes seeded/<id>/meta.json and seeded/README.md from the table below plus verify.log verdicts."""
import json, os, re
T = {
 # id: (property, site / what, needs, caught by (after strengthening), initially missed?, strengthening)
 'C01-a': ('C01', "evaluate(): per-party MAC table built in push order instead of by party index", "evaluator index != 0 and an AND output label that is used again (AND depth >= 2 or a non-evaluator output party)", ['C01'], False, ''),
 'C01-b': ('C01', "init_and_shares(): chunk flushed with '>' instead of '>='", "> 1000 AND gates and mixed per-party tmp_dir choices", ['C01', 'C19'], False, ''),
 'C02-a': ('C02', "output(): garbler checks that the evaluator's label is one of the two valid labels but takes the bit from the message", "corrupted evaluator flips only the bit of 'lambda'; victim is a non-evaluator output party", ['C02', 'C03'], False, ''),
 'C02-b': ('C02', "beaver_aand(): MAC check rejects only if both d and e MACs are wrong (De Morgan slip)", "cheater alters exactly one of d / e consistently (uses the lied value itself); >= 1 AND gate", ['C02', 'C04'], False, ''),
 'C03-a': ('C03', "broadcast_verification(): each unordered pair of parties compared once", "n = 3, equivocating party 2 (or party 1 towards victim 2)", ['C03', 'C04'], False, 'C04 equivocation rows now cover both copies and must be noticed in the echo round itself'),
 'C03-b': ('C03', "output(): output-share MACs verified as one XOR aggregate per peer", "two cancelling share-bit flips at two output registers in one message", ['C03', 'C02'], True, 'C03: pair rows (same field altered at two registers of one message)'),
 'C04-a': ('C04', "chunked_update_with_rbits(): upper half of each 128-bit chunk reuses the lower half's coefficients", "cheater uses other OT choice bits towards one party at exactly positions {p, p+64}", ['C04'], True, "C04: tap on the OT choice bits + rows for single positions and pairs at strides 1/63/64/65/127/128"),
 'C04-b': ('C04', "shared_rng(): commitment/opening exchanged per peer as a pipeline", "n >= 3 and a schedule in which one peer's commitment arrives later", ['C04'], False, ''),
 'C05-a': ('C05', "output(): 'output wire shares' also sent to the evaluator when it is not an output party", "evaluator outside the output set", ['C05'], False, ''),
 'C05-b': ('C05', "output(): set of unique output registers replaced by the range min..max", "non-contiguous output registers (register reuse)", ['C05'], False, ''),
 'C06-a': ('C06', "fabitn(): x unpacked 128 times per 64-bit word, bits 64..127 of every 128 are constant 0", "input wires with global index >= 64 (mod 128)", ['C06'], True, 'C06: balance configuration widened from 8 to 136 input bits per party'),
 'C07-a': ('C07', "fashare(): own-key MAC check only when the claimed bits XOR to 1", "committed lie real bit 1 -> claimed 0 in one of the 40 rounds", ['C07', 'C04'], False, ''),
 'C07-b': ('C07', "garble key_and_nonce(): key = label_y || 0 (label_x ignored)", "curious evaluator tries its labels on a second row; AND gate whose second operand is 1", ['C07'], True, 'C07: hook + oracle "evaluator opens exactly one row per gate and garbler"'),
 'C08-a': ('C08', "check_dvalue(): length check '||' -> '&&'", "'dvalue' entry with one bool fewer but the right number of MACs", ['C08'], False, ''),
 'C08-b': ('C08', "input_processing(): non-input registers no longer rejected in 'masked inputs'", "Some at a non-input register, honest party is a garbler", ['C08'], False, ''),
 'C09-a': ('C09', "output(): sparse 'output wire shares' (None for zero share bits) above 64 output wires", "> 64 unique output wires", ['C09', 'C05'], True, 'wide circuit class (up to 160 outputs, dense-output variant) in C01/C05/C09/C12'),
 'C09-b': ('C09', "broadcast_verification(): repeated digests elided in the echo message", "n >= 4, one or two AND gates, particular coins", ['C09'], False, ''),
 'C10-a': ('C10', "broadcast_verification(): only one echo per peer checked", "n >= 4, equivocating highest-index party (honest runs unaffected)", ['C04'], True, 'C04: broadcast-equivocation rows for n = 4'),
 'C10-b': ('C10', "same site as C04-a (aBit coefficients of positions p and p+64 equal)", "tampering at two positions exactly 64 apart", ['C04'], True, 'see C04-a'),
 'C11-a': ('C11', "recv_correlated(): correction message not read when all choice bits are 0", "all-zero choice vector followed by another session on the channel", ['C11'], False, ''),
 'C11-b': ('C11', "send_correlated(): chunked sending with chunk-relative hash tweak", "one OT call with > 2048 instances", ['C11'], False, ''),
 'C12-a': ('C12', "send_to/recv_from: framing of messages >= 64 KiB + output() awaiting all sends first", "1-slot links, >= 2 output parties, an 'output wire shares' message >= 64 KiB", ['C12'], True, 'C12/C01: circuits with > 64Ki registers (every Vec<Option<..>> message exceeds 64 KiB)'),
 'C12-b': ('C12', "output(): 'lambda' received concurrently with 'output wire shares'", "non-evaluator output party; monitor 'one receive outstanding per peer'", ['C12'], False, ''),
 'C13-a': ('C13', "PolicyState::new(): command queue of 2 slots", "n = 3, both followers supply constants, response to the leader's run(2) delivered after both consts requests", ['C13'], True, 'server explorer: responses delivered as separate actions + strategy-driven paths (responses last, ...)'),
 'C13-b': ('C13', "run(): early return skips Stop when the party has no output destination", "policy without output destination", ['C13'], False, ''),
 'C14-a': ('C14', "consts(): out-of-range sender not rejected in state Validated", "out-of-range consts arriving exactly in state Validated", ['C14'], False, ''),
 'C14-b': ('C14', "run(): ignored internal run loses the mem::take'n state", "stray run queued at the leader while it is inside schedule()", ['C14'], True, "C14: a stray run queued at a scheduling leader is judged for 'no panic, outcome unchanged'"),
 'C15-a': ('C15', "cancel(): AwaitingValidation treated like Init (no notification)", "follower scheduled, not yet validated, has a destination", ['C15'], False, ''),
 'C15-b': ('C15', "run(): a rejected external run request wipes the state; a later cancel is a no-op", "computation past Validated, duplicate run rejected, then cancel", ['C15', 'C14'], True, 'C15: two-step histories (rejected duplicate run, then cancel)'),
 'C16-a': ('C16', "Policy::program_hash(): hashes the lines without line endings", "two well-typed programs that are identical once line breaks are removed", ['C16'], True, 'C16: three kinds of program difference incl. a line break moved into a comment'),
 'C16-b': ('C16', "validate/schedule: leader compared only if the program hash also differs", "n = 3, follower names another follower as leader, same program", ['C16'], False, ''),
 'C17-a': ('C17', "run(): 'let _ = permit' (permit dropped at spawn)", "one party leading more policies than its concurrency", ['C17'], False, ''),
 'C17-b': ('C17', "schedule(): join_all + reduce(Result::or) instead of try_join_all", ">= 3 participants, run RPC failing towards one of several followers", ['C17'], True, 'C17: three-party batches with a failure towards one peer'),
 'C18-a': ('C18', "mpc(): dedup before sort", "repeated output index with non-adjacent occurrences ([1,0,1])", ['C18'], False, ''),
 'C18-b': ('C18', "validate(): only the smallest output index range-checked", "invalid output index next to a valid one", ['C18'], False, ''),
 'C19-a': ('C19', "Iter/ChunkIter drop: write position not restored when the reader's buffer is empty", "iterator dropped before any item was pulled (or on an 8 KiB boundary), then append", ['C19'], False, ''),
 'C19-b': ('C19', "init_and_shares(): chunk size = random_shares_batch_size()", "> 1000 ANDs and inputs + ANDs > 9000 (batch sizes differ), mixed or all-file tmp_dir", ['C19'], True, 'C19: mpc class with ~9000 AND gates and many inputs'),
 'C20-a': ('C20', "avx2 transpose: row-block offset dropped for rest columns", "rows >= 256 and cols % 128 != 0 on the AVX2 path", ['C20'], False, ''),
 'C20-b': ('C20', "AesRng::fill_bytes: counter advanced by a full chunk on a partial chunk", "request with (len/16) % 8 != 0 and a tail / follow-up", ['C20'], False, ''),
 # ---- second round (less obvious sites)
 'C01-c': ('C01', "Context::and_share_batch_size(): one batch when tmp_dir is None", "> 1000 AND gates and mixed per-party tmp_dir choices", ['C01', 'C19'], False, ''),
 'C01-d': ('C01', "output(): contributors outside the output set return early", "a non-evaluator party that is not in p_out", ['C01', 'C05'], False, ''),
 'C02-c': ('C02', "broadcast_verification(): an echo of sender j only compared when it comes from a lower-index party", "n = 3, corrupted party 0 equivocates masked inputs and sends matching lambdas", ['C03', 'C04'], False, 'C02 itself does not combine two coordinated faults; the equivocation is reported by C03/C04'),
 'C02-d': ('C02', "output(): compact Vec<(bool,Mac)> 'output wire shares' without a length check (zip truncates)", "peer sends a shortened / empty but well-formed vector", ['C02'], True, 'format-agnostic VecShrink/VecGrow byte mutators; a wire grammar that no longer matches is not fatal any more (byte-level fallback)'),
 'C03-c': ('C03', "hash_vec(): tail beyond a multiple of 1024 elements not hashed", "n = 3, broadcast vector > 1024 elements, equivocation in the tail", ['C03', 'C04'], True, 'C03: masked-inputs equivocation on a 2200+-register circuit; C04: equivocation at the last element, 1500-element leaky-AND vectors'),
 'C03-d': ('C03', "output(): output-share MACs checked as one XOR fold per party (same idea as C03-b)", "two cancelling flips in one message", ['C03'], False, ''),
 'C04-c': ('C04', "check_dvalue(): d-value MACs compared as one XOR per bucket", "two d-values of one bucket flipped, MACs untouched", ['C04', 'C02'], True, 'C04: paired alterations inside one bucket / triple / vector (bits and MACs)'),
 'C04-d': ('C04', "flaand(): commitment and opening of H exchanged concurrently", "peer withholds its commitment (schedule)", ['C04'], False, ''),
 'C05-c': ('C05', "Context::is_output_party(): range check joined with '||'", "n >= 3 and a non-contiguous output set", ['C05'], False, ''),
 'C05-d': ('C05', "output(): all registers sent when output_regs.len() == max_reg_count", "duplicated outputs whose count equals the register count", ['C05'], False, ''),
 'C06-c': ('C06', "output(): 'output wire shares' built from the whole register file", "an input register that survives to the end; observer is an output party", ['C06', 'C05'], True, 'C06: own mask share of a non-output register must not appear in the share messages'),
 'C06-d': ('C06', "KOS Receiver::recv_setup(): blinding bits filled before resize (always zero)", "peer recomputes the public coins and solves the GF(2) system (l <= 128)", ['C06'], True, 'C06: linear leakage test (KOS check value + aBit test bits + opened bits under the hypothesis of constant blinding bits)'),
 'C07-c': ('C07', "fashare(): own-key MAC check moved after the opening", "one committed lie about a check bit; the victim aborts but has already opened", ['C07'], False, ''),
 'C07-d': ('C07', "fashare(): own-key MAC check aggregated over all rounds", "an even number of committed lies in one aShare call", ['C07', 'C04'], True, 'C04/C07: tap rows with two and four committed lies'),
 'C08-c': ('C08', "xor_inplace(): slices b to a.len() (panics on a short OT-extension row)", "'ALSZ_OT_setup' with one inner row shorter, in a column where the victim's base-OT bit is 1", ['C08'], False, ''),
 'C08-d': ('C08', "GarbledGate rows decoded through a serde_bytes-style path that allocates the claimed length", "length prefix of a row altered (two levels deep)", ['C08'], False, ''),
 'C09-c': ('C09', "broadcast_verification(): echo sent as a BTreeSet of digests", "n >= 4, few AND gates, coin coincidence", ['C09'], False, ''),
 'C09-d': ('C09', "output(): sparse 'lambda' message when the evaluator is not an output party", "output set excluding the evaluator", ['C09'], False, ''),
 'C10-c': ('C10', "same site as C04-a", "see C04-a", ['C04'], False, 'after the first-round strengthening'),
 'C10-d': ('C10', "check_dvalue(): length check only for the first bucket", "'dvalue' MAC list truncated for a later bucket", ['C04'], False, ''),
 'C11-c': ('C11', "avx2 transpose: rest columns only handled when >= 16 (an 8-column tail is skipped)", "OT length in 128k+89..128k+96 on an AVX2 host", ['C11', 'C20'], False, ''),
 'C11-d': ('C11', "send_correlated(): batched hashing, batch offset missing in one of the two tweaks", "OT length > 2048 and choice bit 1 at an index >= 2048", ['C11'], False, ''),
 'C12-c': ('C12', "output(): 'lambda' and 'output wire shares' of the evaluator received concurrently", "non-evaluator output party; monitor one receive outstanding per peer", ['C12'], False, ''),
 'C12-d': ('C12', "garble(): garbled-gate chunks sent with try_join_all after the loop", "> 1000 AND gates (two or more chunks)", ['C12'], False, ''),
 'C13-c': ('C13', "init_channel() moved from schedule() to run()", "an MPC message overtakes the run request (n = 3 or delayed response)", ['C13'], False, ''),
 'C13-d': ('C13', "run(): early return skips Stop for a party without output destination (same idea as C13-b)", "policy without output destination", ['C13'], False, ''),
 'C14-c': ('C14', "run(): internal Run in a wrong state loses the state (same idea as C14-b)", "stray run queued at the scheduling leader", ['C14'], False, 'after the first-round strengthening'),
 'C14-d': ('C14', "validate(): an identical validate replaces the parked one", "follower in ValidateRequested (validate before its schedule), exact replay of the request", ['C14'], True, 'C14: duplicate validate is also invalid in ValidateRequested; coordination order with validate first in the quick tier'),
 'C15-c': ('C15', "cancel(): SendingConsts arm builds a fresh client when the consts task failed", "cancel while the party's own constants exchange is failing", ['C15', 'C17'], True, 'C15: cancel at every point after an injected failure of the own constants exchange'),
 'C15-d': ('C15', "run(): Cancelled suppressed once the result delivery has started", "cancel while the result notification is in flight to a slow destination", ['C15'], True, 'explorer: notifications to the output destination can be held in flight; C15 cancels in that window'),
 'C16-c': ('C16', "schedule(): leader inspects only the first validate response", "n >= 3, mismatch at one follower, the compatible follower answers first", ['C16'], False, ''),
 'C16-d': ('C16', "Policy::program_hash(): lines hashed without separators (same idea as C16-a)", "programs differing only in line-break placement", ['C16'], False, 'after the first-round strengthening'),
 'C17-c': ('C17', "run(): constants sent sequentially, only the last result checked", ">= 3 parties, consts call failing towards a non-last peer", ['C17'], False, 'after the first-round strengthening (three-party failure batches)'),
 'C17-d': ('C17', "cancel(): notify_waiters() instead of notify_one()", "leader cancelled while compiling (notification lost), follower cancelled later", ['C17'], True, 'C17: two-cancel family; a cancelled policy with nothing in flight must hold no permit at quiescence'),
 'C18-c': ('C18', "mpc(): dedup without sort (same idea as C18-a)", "non-adjacent repeated output index", ['C18'], False, ''),
 'C18-d': ('C18', "#[instrument] on mpc(): span field indexes input_regs[p_own] before validation", "invalid own index and a tracing subscriber that enables the INFO span", ['C18'], True, 'C18 (and a quarter of C01): every case also runs under a subscriber that enables all spans and events'),
 'C19-c': ('C19', "reader drop skips the seek when its buffer is empty (same idea as C19-a)", "reader dropped before any item was pulled, then append", ['C19'], False, ''),
 'C19-d': ('C19', "init_and_shares(): short tail folded into the last chunk", "1001..1249 AND gates and differing tmp_dir choices", ['C19', 'C01'], False, ''),
 'C20-c': ('C20', "AesRng::fill_bytes (same idea as C20-b)", "len % 16 != 0 and (len/16) % 8 != 0", ['C20'], False, ''),
 'C20-d': ('C20', "avx2 handle_rest_cols: contiguous copy of the ragged block", "rows >= 256 and cols % 128 != 0", ['C20'], False, ''),
}
rows=[]
for sid,(prop,site,needs,caught,missed,strength) in sorted(T.items()):
    d=f'/verif/seeded/{sid}'
    if not os.path.isdir(d): continue
    verdict=None
    try:
        for l in open(d+'/verify.log'):
            if l.startswith('VERDICT'): verdict=l.strip()
    except FileNotFoundError: pass
    ok = bool(verdict) and 'suite_exit=0' in verdict and 'demo_with_change_exit=101' in verdict and 'demo_without_change_exit=0' in verdict
    meta={'id':sid,'property':prop,'change':site,'needs_to_manifest':needs,
          'confirmed_in_scratch_worktree': ok, 'verification': verdict or 'pending',
          'what_was_run':'tools/verify_seeded.sh (scratch worktree /tmp/vseed_wt of /repo@d24f430: git apply patch.diff; cargo nextest run of the changed crate (existing tests); demo with the change -> must fail; demo without the change -> must pass) and tools/run_seeded.sh (git -C /repo apply; bin/check <id> quick; git -C /repo checkout)',
          'caught_by_quick_tier_of':caught,'missed_before_strengthening':missed,'strengthening':strength,
          'files':sorted(os.listdir(d))}
    json.dump(meta,open(d+'/meta.json','w'),indent=1)
    rows.append((sid,prop,site,needs,', '.join(caught),'missed at first: '+strength if missed else 'caught as built', 'yes' if ok else 'pending'))
with open('/verif/seeded/README.md','w') as f:
    f.write('# Seeded changes\n\nEach directory holds a change to sine-fdn/polytune written by an independent sub-agent that was given only the text of one property and a scratch worktree (nothing from /verif): `patch.diff`, its demonstration (`demo.diff` or `demo_test.rs`), the agent\'s `README.md`, `verify.log` (my own confirmation in a scratch worktree: compiles, existing tests of the crate pass, demo fails with / passes without the change) and `meta.json`.  None of these changes is ever committed to /repo.\n\n`tools/run_seeded.sh <id> <check>...` applies one to /repo, runs the quick tier and undoes it.\n\n| id | breaks | change | needs | caught by (quick) | history | confirmed |\n|---|---|---|---|---|---|---|\n')
    for r in rows: f.write('| '+' | '.join(r)+' |\n')
print(len(rows),'entries')
