#!/bin/bash
# usage: run_seeded.sh <seeded-id> <check> [<check> ...]
# Applies /verif/seeded/<id>/patch.diff to /repo, runs the quick tier of the given checks, undoes it.
ID=$1; shift
cd /verif
[ -z "$(git -C /repo status --porcelain)" ] || { echo "/repo not clean"; exit 2; }
git -C /repo apply --3way /verif/seeded/$ID/patch.diff 2>/dev/null || git -C /repo apply /verif/seeded/$ID/patch.diff || { echo "$ID: patch does not apply on HEAD"; git -C /repo checkout -- .; exit 2; }
for C in "$@"; do
  S=$(date +%s)
  OUT=$(PVF_NO_EVIDENCE=1 ./bin/check $C quick 2>&1); RC=$?
  echo "$ID $C exit=$RC $(( $(date +%s) - S ))s $(echo "$OUT" | grep -m1 '^violation:' | cut -c1-260)"
done
git -C /repo reset -q --hard HEAD; git -C /repo checkout -- .; rm -f /verif/replays/*.json
