#!/bin/bash
# usage: run_seeded.sh <seeded-id> <check> [<check> ...]
# Applies /verif/seeded/<id>/patch.diff to /repo, runs the quick tier of the given checks, undoes it.
ID=$1; shift
cd /verif
[ -z "$(git -C /repo status --porcelain)" ] || { echo "/repo not clean"; exit 2; }
# patch_head.diff = the same change ported to the current HEAD (where a later fix touched the same lines)
P=/verif/seeded/$ID/patch.diff; [ -f /verif/seeded/$ID/patch_head.diff ] && P=/verif/seeded/$ID/patch_head.diff
git -C /repo apply $P 2>/dev/null || git -C /repo apply --3way $P 2>/dev/null || { echo "$ID: patch does not apply on HEAD"; git -C /repo reset -q --hard HEAD; exit 2; }
for C in "$@"; do
  S=$(date +%s)
  OUT=$(PVF_NO_EVIDENCE=1 ./bin/check $C quick 2>&1); RC=$?
  echo "$ID $C exit=$RC $(( $(date +%s) - S ))s $(echo "$OUT" | grep -m1 '^violation:' | cut -c1-260)"
done
git -C /repo reset -q --hard HEAD; git -C /repo checkout -- .; rm -f /verif/replays/*.json
