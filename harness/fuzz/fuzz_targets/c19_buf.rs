#![no_main]
//! bytes -> operation sequence on FileOrMemBuf (file variant, memory variant, Vec model).
use arbitrary::Unstructured;
use libfuzzer_sys::fuzz_target;
use pvf::checks::c19::{Case, Op, test_case};

fn decode(data: &[u8]) -> arbitrary::Result<Case> {
    let mut u = Unstructured::new(data);
    let chunk = u.int_in_range(1..=8usize)?;
    let elem: u8 = u.arbitrary()?;
    let n = u.int_in_range(1..=12usize)?;
    let mut ops = vec![];
    for _ in 0..n {
        ops.push(match u.int_in_range(0..=5u8)? {
            0 | 1 => Op::Append(u.int_in_range(1..=3 * chunk)?),
            2 => Op::Append(chunk),
            3 => {
                if u.arbitrary()? {
                    Op::IterAll
                } else {
                    Op::IterTake(u.int_in_range(0..=12usize)?)
                }
            }
            4 => Op::ChunksAll,
            _ => Op::ChunksTake(u.int_in_range(0..=4usize)?),
        });
    }
    Ok(Case { chunk, ops, elem })
}

fuzz_target!(|data: &[u8]| {
    let Ok(case) = decode(data) else { return };
    if let Err(f) = test_case(&case) {
        if f.signature.starts_with("INFRA") {
            return;
        }
        eprintln!("PVF-FUZZ-CASE {}", serde_json::to_string(&case).unwrap());
        panic!("VIOLATION C19 {} :: {}", f.signature, f.msg);
    }
});
