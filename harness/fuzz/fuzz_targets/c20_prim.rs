#![no_main]
//! bytes -> (shape, data) / (a, b) / (tweak, x) / (seed, len) / slice hashes / generator operation sequences vs. the reference implementations.
use arbitrary::Unstructured;
use libfuzzer_sys::fuzz_target;
use pvf::checks::c20::{Case, test_case};

fn decode(data: &[u8]) -> arbitrary::Result<Case> {
    let mut u = Unstructured::new(data);
    Ok(match u.int_in_range(0..=6u8)? {
        0 => Case::Transpose { rows: 128 * u.int_in_range(1..=3usize)?, cols: 8 * u.int_in_range(2..=96usize)?, seed: u.arbitrary()?, density: u.arbitrary()?, offset: u.int_in_range(0..=15usize)?, portable_only: false },
        1 => Case::Transpose { rows: 16 * u.int_in_range(1..=24usize)?, cols: 8 * u.int_in_range(2..=48usize)?, seed: u.arbitrary()?, density: u.arbitrary()?, offset: u.int_in_range(0..=15usize)?, portable_only: true },
        2 => Case::Clmul { a: u.arbitrary()?, b: u.arbitrary()? },
        3 => Case::Hash { tweak: u.arbitrary()?, x: u.arbitrary()? },
        4 => Case::Rng { seed: u.arbitrary()?, len: u.int_in_range(0..=1100usize)? },
        5 => Case::HashSlice { seed: u.arbitrary()?, len: u.int_in_range(0..=70usize)? },
        _ => {
            let seed = u.arbitrary()?;
            let k = u.int_in_range(1..=8usize)?;
            let mut ops = vec![];
            for _ in 0..k {
                ops.push(match u.int_in_range(0..=5u8)? {
                    0 => 1200u16,
                    1 => 1201,
                    2 => u.int_in_range(0..=1199u16)?,
                    _ => u.int_in_range(0..=80u16)?,
                });
            }
            Case::RngOps { seed, ops }
        }
    })
}

fuzz_target!(|data: &[u8]| {
    let Ok(case) = decode(data) else { return };
    if let Err(f) = test_case(&case) {
        eprintln!("PVF-FUZZ-CASE {}", serde_json::to_string(&case).unwrap());
        panic!("VIOLATION C20 {} :: {}", f.signature, f.msg);
    }
});
