#![no_main]
//! bytes -> (configuration, message index of the corrupted sender, mutation program on the decoded
//! tree or on the raw bytes | crash point) -> one simulated run -> generic oracle of C08.
use std::sync::OnceLock;

use arbitrary::Unstructured;
use libfuzzer_sys::fuzz_target;
use pvf::adv::{AttackCase, Fault, Target};
use pvf::checks::c08::{Case, configs, test_case};
use pvf::fw::Tier;
use pvf::run::{Adversary, MpcCase, run_mpc};
use pvf::sim::exec::ExecCfg;
use pvf::wire::{ByteMut, MsgMut, TreeMut};

struct Cfg {
    base: MpcCase,
    corrupt: usize,
    /// labels of the messages the corrupted party sends, by sender index
    labels: Vec<String>,
}

fn table() -> &'static Vec<Cfg> {
    static T: OnceLock<Vec<Cfg>> = OnceLock::new();
    T.get_or_init(|| {
        configs(Tier::Quick)
            .into_iter()
            .map(|(base, corrupt)| {
                let run = run_mpc(&base, Adversary::default(), &ExecCfg { record_probes: false, ..Default::default() });
                let labels = run.res.msgs.iter().filter(|m| m.from == corrupt).map(|m| m.label.clone()).collect();
                Cfg { base, corrupt, labels }
            })
            .collect()
    })
}

fn tree_mut(u: &mut Unstructured) -> arbitrary::Result<TreeMut> {
    Ok(match u.int_in_range(0..=10u8)? {
        0 => TreeMut::FlipBit(u.arbitrary()?),
        1 => TreeMut::SetByte(u.arbitrary()?),
        2 => TreeMut::Randomise(u.arbitrary()?),
        3 => TreeMut::Zero,
        4 => TreeMut::Ones,
        5 => TreeMut::ToggleOpt,
        6 => TreeMut::LenMinus1,
        7 => TreeMut::LenPlus1,
        8 => TreeMut::LenZero,
        9 => TreeMut::LenOne,
        _ => TreeMut::SwapEnds,
    })
}

fn decode(data: &[u8]) -> arbitrary::Result<Case> {
    let mut u = Unstructured::new(data);
    let t = table();
    let cfg = &t[u.int_in_range(0..=t.len() - 1)?];
    let k = u.int_in_range(0..=cfg.labels.len() - 1)?;
    let label = cfg.labels[k].clone();
    let mut attack = AttackCase::honest(cfg.base.clone(), cfg.corrupt);
    match u.int_in_range(0..=9u8)? {
        0 => attack.crash_after = Some(k),
        1 => attack.faults.push(Fault { target: Target::SenderIdx(k), mutation: MsgMut::Drop }),
        2 => attack.faults.push(Fault { target: Target::SenderIdx(k), mutation: MsgMut::Duplicate }),
        3 | 4 => {
            let bm = match u.int_in_range(0..=6u8)? {
                0 => ByteMut::Empty,
                1 => ByteMut::Truncate(u.arbitrary()?),
                2 => ByteMut::FlipBit(u.arbitrary()?),
                3 => ByteMut::RandomSameLen(u.arbitrary()?),
                4 => ByteMut::Extend(u.int_in_range(1..=64u32)?),
                5 => ByteMut::LenPrefix { offset: u.int_in_range(0..=64u32)?, k: u.arbitrary()? },
                _ => ByteMut::AllOnes,
            };
            attack.faults.push(Fault { target: Target::SenderIdx(k), mutation: MsgMut::Bytes(bm) });
        }
        _ => {
            // 1..3 tree mutations at generated paths (depth <= 4)
            let n = u.int_in_range(1..=3usize)?;
            let mut ms = vec![];
            for _ in 0..n {
                let depth = u.int_in_range(0..=4usize)?;
                let mut path = vec![];
                for _ in 0..depth {
                    path.push(u.int_in_range(0..=130usize)?);
                }
                ms.push((path, tree_mut(&mut u)?));
            }
            attack.faults.push(Fault { target: Target::SenderIdx(k), mutation: MsgMut::Multi(ms) });
        }
    }
    Ok(Case { attack, label, honest_peak: usize::MAX / 4 })
}

fuzz_target!(|data: &[u8]| {
    let Ok(case) = decode(data) else { return };
    if let Err(f) = test_case(&case) {
        eprintln!("PVF-FUZZ-CASE {}", serde_json::to_string(&case).unwrap());
        panic!("VIOLATION C08 {} :: {}", f.signature, f.msg);
    }
});
