//! Process-level sharding for the server-core checks: one world per worker process keeps the
//! OS thread count (used for exact quiescence) meaningful.
use std::io::{BufRead, BufReader, Write};
use std::process::{Command, Stdio};

use serde_json::{Value, json};

use crate::fw::{CaseInfo, Ctx, Fail, threads};

pub enum UnitResult {
    Ok(CaseInfo),
    Fail(Fail, Value),
}

pub fn worker_id() -> Option<(usize, usize)> {
    let s = std::env::var("PVF_WORKER").ok()?;
    let (a, b) = s.split_once('/')?;
    Some((a.parse().ok()?, b.parse().ok()?))
}

fn emit(r: &UnitResult) {
    let line = match r {
        UnitResult::Ok(i) => json!({"ok": {"nontrivial": i.nontrivial.map(|h| h.to_string()), "classes": i.classes, "sample": i.sample, "undecided": i.undecided, "extra_runs": i.extra_runs}}),
        UnitResult::Fail(f, c) => json!({"fail": {"signature": f.signature, "msg": f.msg, "case": c}}),
    };
    let out = std::io::stdout();
    let mut l = out.lock();
    let _ = writeln!(l, "PVFLINE {line}");
    let _ = l.flush();
}

/// Worker side: runs the units assigned to this worker, printing one line per result.
pub fn run_worker<U>(units: Vec<U>, k: usize, of: usize, run_unit: impl Fn(&U, &mut dyn FnMut(UnitResult))) -> i32 {
    for (i, u) in units.iter().enumerate() {
        if i % of != k {
            continue;
        }
        run_unit(u, &mut |r| emit(&r));
    }
    println!("PVFDONE");
    0
}

/// Parent side: spawns the workers and merges their results into `ctx`.
pub fn run_parent(ctx: &Ctx, id: &str, n_units: usize) {
    let workers = threads().min(n_units.max(1));
    let exe = std::env::current_exe().expect("current exe");
    let mut children = vec![];
    for k in 0..workers {
        let child = Command::new(&exe)
            .arg(id)
            .arg("--tier")
            .arg(ctx.tier.name())
            .env("PVF_WORKER", format!("{k}/{workers}"))
            .env("VERIF_SEED", ctx.seed.to_string())
            .stdout(Stdio::piped())
            .stderr(Stdio::null())
            .spawn();
        match child {
            Ok(c) => children.push(c),
            Err(e) => {
                ctx.infra(format!("cannot spawn worker: {e}"));
                return;
            }
        }
    }
    std::thread::scope(|s| {
        for mut c in children {
            s.spawn(move || {
                let out = c.stdout.take().unwrap();
                let mut done = false;
                for line in BufReader::new(out).lines().map_while(Result::ok) {
                    if line == "PVFDONE" {
                        done = true;
                        continue;
                    }
                    let Some(js) = line.strip_prefix("PVFLINE ") else { continue };
                    let Ok(v) = serde_json::from_str::<Value>(js) else { continue };
                    if let Some(o) = v.get("ok") {
                        ctx.record(CaseInfo {
                            nontrivial: o["nontrivial"].as_str().and_then(|s| s.parse().ok()),
                            classes: o["classes"].as_array().map(|a| a.iter().filter_map(|x| x.as_str().map(String::from)).collect()).unwrap_or_default(),
                            sample: if o["sample"].is_null() { None } else { Some(o["sample"].clone()) },
                            undecided: o["undecided"].as_bool().unwrap_or(false),
                            extra_runs: o["extra_runs"].as_u64().unwrap_or(0),
                        });
                    } else if let Some(f) = v.get("fail") {
                        let fail = Fail::new(f["signature"].as_str().unwrap_or(""), f["msg"].as_str().unwrap_or(""));
                        ctx.evaluations.fetch_add(1, std::sync::atomic::Ordering::Relaxed);
                        if ctx.is_known(&fail) {
                            ctx.count_class(&format!("known:{}", fail.signature));
                        } else {
                            ctx.report_violation(fail, f["case"].clone());
                        }
                    }
                    if ctx.stopped() {
                        let _ = c.kill();
                        break;
                    }
                }
                let status = c.wait();
                if !done && !ctx.stopped() {
                    ctx.infra(format!("a worker process ended abnormally: {status:?}"));
                }
            });
        }
    });
}
