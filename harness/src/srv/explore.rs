//! One exploration = one execution of a session under a plan (script of choices + injected
//! actions).  Stateless re-execution; the recorded branching factors drive the DFS odometer.
use std::collections::HashMap;

use garble_lang::literal::Literal;
use polytune_server_core::{ConstsRequest, MpcMsg, RunRequest, ValidateRequest};
use serde::{Deserialize, Serialize};
use tokio::task::JoinHandle;
use uuid::Uuid;

use super::{Decision, LogEv, RpcKind, SrvConfig, SrvWorld, quiesce, thread_count};

#[derive(Clone, Debug, PartialEq, Eq, Hash, Serialize, Deserialize)]
pub enum Stray {
    /// variant: 0 = same policy, 1 = different (valid) program text, 2 = program that does not type-check
    DuplicateSchedule { variant: u8 },
    Validate,
    Run,
    Consts { from: usize },
    MpcMsg { from: usize },
}

#[derive(Clone, Debug, PartialEq, Eq, Hash, Serialize, Deserialize)]
pub enum When {
    /// at the k-th quiescent point, before the regular action of that step
    Step(usize),
    /// immediately after the k-th regular action, without waiting for quiescence
    AfterAction(usize),
    /// as soon as the compile thread is alive (spin on the OS thread count)
    WhileCompiling,
    /// once k MPC messages have been delivered (the computation is held at that point)
    AfterMsg(usize),
    /// while a notification of the target to its output destination is in flight (`hold_outputs`)
    OutputInFlight,
}

#[derive(Clone, Debug, PartialEq, Eq, Hash, Serialize, Deserialize)]
pub enum Mismatch {
    /// follower `party` schedules a different program text; kind 0: trailing comment appended,
    /// 1: an operator changed, 2: same characters but a line break moved so that part of the
    /// expression ends up inside a comment (both versions type-check, they compute different things)
    Program { party: usize, #[serde(default)] kind: u8 },
    /// follower `party` names another follower as leader
    Leader { party: usize, claims: usize },
    /// `party` schedules a program that does not type-check
    IllTyped { party: usize },
}

#[derive(Clone, Debug, Default, PartialEq, Eq, Hash, Serialize, Deserialize)]
pub struct Plan {
    pub script: Vec<usize>,
    /// responses of coordination RPCs are delivered as separate actions
    #[serde(default)]
    pub split_replies: bool,
    /// when the script is exhausted, choose by this strategy instead of "first enabled"
    #[serde(default)]
    pub strategy: Option<Strategy>,
    /// notifications to output destinations stay in flight until delivered by the explorer
    #[serde(default)]
    pub hold_outputs: bool,
    pub inject: Option<(When, usize, Stray)>,
    pub cancel: Option<(When, usize)>,
    /// a second cancel (another party, another point); only `Step` and `AfterMsg` triggers
    #[serde(default)]
    pub cancel2: Option<(When, usize)>,
    /// fail (instead of deliver) the first coordination RPC of this kind from -> to
    pub fail_rpc: Option<(RpcKind, usize, usize)>,
    pub mismatch: Option<Mismatch>,
    pub uuid: u128,
}

#[derive(Clone, Debug, PartialEq, Eq, Hash, Serialize, Deserialize)]
pub enum Strategy {
    /// deliver responses only when nothing else is enabled
    RepliesLast,
    /// deliver requests only when nothing else is enabled
    RequestsLast,
    /// nothing towards party p (requests to it, responses to it, its schedule) unless nothing else is enabled
    Starve(usize),
    /// hold back this kind of RPC (requests and responses) as long as possible
    HoldKind(RpcKind),
    /// SplitMix-driven uniform choice
    Random(u64),
    /// always the last enabled action
    Last,
}

#[derive(Clone, Debug, Default, Serialize)]
pub struct Obs {
    pub schedule: Vec<Option<Result<(), String>>>,
    pub outputs: Vec<(usize, Result<String, String>, usize)>,
    pub actor_finished: Vec<bool>,
    pub actor_panicked: Vec<bool>,
    pub permits: Vec<usize>,
    pub msgs: usize,
    pub pending_left: usize,
    pub stray: Option<Option<Result<(), String>>>,
    /// (result, log index at completion)
    pub cancel: Option<Option<(Result<(), String>, usize)>>,
    pub branching: Vec<usize>,
    pub coverage: Vec<String>,
    pub injected_state: Option<String>,
    pub log_len: usize,
    pub trigger_fired: bool,
    /// the target's schedule had been issued before the cancel / injection was issued
    pub target_scheduled_before: bool,
    pub failed_rpc: bool,
    pub steps: usize,
    /// coordination calls still in flight at final quiescence
    pub inflight_calls: usize,
    /// result of the second cancel
    pub cancel2: Option<Option<Result<(), String>>>,
    /// the choices actually taken (replayable as `script`)
    pub choices: Vec<usize>,
}

#[derive(Clone, Copy, Debug, PartialEq)]
enum Act {
    Schedule(usize),
    Deliver(usize),
}

fn strategy_pick(st: &Strategy, enabled: &[Act], pend: &[(usize, RpcKind, usize, usize, bool)], rng: &mut crate::sim::sched::Mix) -> usize {
    let info = |a: &Act| -> (Option<RpcKind>, usize, bool) {
        match a {
            Act::Schedule(p) => (None, *p, false),
            Act::Deliver(id) => {
                let p = pend.iter().find(|x| x.0 == *id).unwrap();
                // a response travels back to the caller (`from`)
                (Some(p.1), if p.4 { p.2 } else { p.3 }, p.4)
            }
        }
    };
    let prefer = |pred: &dyn Fn(&Act) -> bool| -> usize { enabled.iter().position(|a| pred(a)).unwrap_or(0) };
    match st {
        Strategy::RepliesLast => prefer(&|a| !info(a).2),
        Strategy::RequestsLast => prefer(&|a| info(a).2 || matches!(a, Act::Schedule(_))),
        Strategy::Starve(p) => prefer(&|a| info(a).1 != *p),
        Strategy::HoldKind(k) => prefer(&|a| info(a).0 != Some(*k)),
        Strategy::Random(_) => rng.below(enabled.len()),
        Strategy::Last => enabled.len() - 1,
    }
}

/// State of party p as far as the history determines it.
fn party_state(log: &[LogEv], p: usize, sched_issued: &[bool], leader: usize) -> &'static str {
    let validated_in = log.iter().any(|e| matches!(e, LogEv::RpcDone { kind: RpcKind::Validate, to, ok: true, .. } if *to == p));
    let validate_delivered = log.iter().any(|e| matches!(e, LogEv::Action(a) if a == &format!("deliver validate ->{p}")));
    let run_delivered = log.iter().any(|e| matches!(e, LogEv::Action(a) if a == &format!("deliver run ->{p}")));
    if p == leader {
        if !sched_issued[p] {
            return "Init";
        }
        let all_validated = log.iter().filter(|e| matches!(e, LogEv::RpcDone { kind: RpcKind::Validate, from, ok: true, .. } if *from == p)).count();
        let _ = all_validated;
        return "LeaderScheduling";
    }
    if run_delivered {
        return "Running*";
    }
    if validated_in && sched_issued[p] {
        return "Validated";
    }
    match (sched_issued[p], validate_delivered) {
        (false, false) => "Init",
        (false, true) => "ValidateRequested",
        (true, false) => "AwaitingValidation",
        (true, true) => "Validated?",
    }
}

pub async fn explore(cfg: &SrvConfig, plan: &Plan, baseline_threads: usize) -> Obs {
    let n = cfg.n();
    let world = SrvWorld::new(n, cfg.concurrency);
    let ctl = world.ctl.clone();
    ctl.inner.lock().unwrap().split_replies = plan.split_replies;
    ctl.inner.lock().unwrap().hold_outputs = plan.hold_outputs;
    let mut strat_rng = crate::sim::sched::Mix(match &plan.strategy {
        Some(Strategy::Random(s)) => *s,
        _ => 1,
    });
    let id = Uuid::from_u128(plan.uuid | 1);
    let mut policies: Vec<_> = (0..n).map(|p| cfg.policy(p, id)).collect();
    match &plan.mismatch {
        Some(Mismatch::Program { party, kind }) => match kind % 3 {
            0 => policies[*party].program.push_str("// different text\n"),
            1 => policies[*party].program = policies[*party].program.replacen("x0", "(x0 ^ 1u8)", 2).replacen("(x0 ^ 1u8): u8", "x0: u8", 1),
            _ => {
                let args: Vec<String> = (0..n).map(|p| format!("x{p}: u8")).collect();
                for (p, pol) in policies.iter_mut().enumerate() {
                    pol.program = if p == *party {
                        format!("pub fn main({}) -> u8 {{ x0 // first operand ^ x1\n }}\n", args.join(", "))
                    } else {
                        format!("pub fn main({}) -> u8 {{ x0 // first operand\n ^ x1 }}\n", args.join(", "))
                    };
                    pol.constants.clear();
                }
            }
        },
        Some(Mismatch::Leader { party, claims }) => policies[*party].leader = *claims,
        Some(Mismatch::IllTyped { party }) => policies[*party].program = "pub fn main(a: u8, b: u8) -> bool { a + b }".to_string(),
        None => {}
    }
    let mut sched_issued = vec![false; n];
    let mut sched_tasks: Vec<Option<JoinHandle<()>>> = (0..n).map(|_| None).collect();
    let mut obs = Obs { schedule: vec![None; n], ..Default::default() };
    let mut step = 0usize;
    let mut stray_task: Option<JoinHandle<()>> = None;
    let mut cancel_task: Option<JoinHandle<()>> = None;
    let mut cancel2_done = plan.cancel2.is_none();
    let mut cancel2_task: Option<JoinHandle<()>> = None;
    let mut inject_done = plan.inject.is_none();
    let mut cancel_done = plan.cancel.is_none();
    let mut failed = false;
    let gate_k = match (&plan.inject, &plan.cancel) {
        (Some((When::AfterMsg(k), _, _)), _) => Some(*k),
        (_, Some((When::AfterMsg(k), _))) => Some(*k),
        _ => None,
    };
    if gate_k.is_some() {
        ctl.set_gate(gate_k);
    }
    let do_inject = |target: usize, stray: &Stray, world: &SrvWorld| -> JoinHandle<()> {
        let h = world.handles[target].clone();
        let ctl = world.ctl.clone();
        let stray = stray.clone();
        let mut pol = cfg.policy(target, id);
        tokio::spawn(async move {
            let r: Result<(), String> = match stray {
                Stray::DuplicateSchedule { variant } => {
                    match variant {
                        1 => pol.program.push_str("// other\n"),
                        2 => pol.program = "pub fn main(a: u8, b: u8) -> bool { a + b }".to_string(),
                        _ => {}
                    }
                    h.schedule(pol).await.map_err(|e| format!("{e:?}"))
                }
                Stray::Validate => h.validate(ValidateRequest::from(&pol)).await.map_err(|e| format!("{e:?}")),
                Stray::Run => h.run(RunRequest { computation_id: id }).await.map_err(|e| format!("{e:?}")),
                Stray::Consts { from } => {
                    let mut c = HashMap::new();
                    c.insert("K".to_string(), Literal::from(77u8));
                    h.consts(ConstsRequest { from, computation_id: id, consts: c }).await.map_err(|e| format!("{e:?}"))
                }
                Stray::MpcMsg { from } => h.mpc_msg(MpcMsg { from, data: vec![1, 2, 3] }).await.map_err(|e| format!("{e:?}")),
            };
            ctl.event(LogEv::StrayDone { idx: 0, result: r });
        })
    };
    let do_cancel = |target: usize, world: &SrvWorld| -> JoinHandle<()> {
        let h = world.handles[target].clone();
        let ctl = world.ctl.clone();
        tokio::spawn(async move {
            let r = h.cancel().await.map_err(|e| format!("{e:?}"));
            ctl.event(LogEv::CancelDone { party: target, result: r });
        })
    };
    loop {
        quiesce(&ctl, baseline_threads).await;
        // gate reached?
        if let Some(k) = gate_k {
            let (delivered, held) = {
                let g = ctl.inner.lock().unwrap();
                (g.msgs_delivered, g.msg_gate.is_some())
            };
            if held && delivered >= k {
                if let Some((When::AfterMsg(_), target, stray)) = &plan.inject {
                    if !inject_done {
                        // the target is executing for sure only if it has itself sent an MPC message
                        let sent = ctl.inner.lock().unwrap().msgs_from.get(*target).copied().unwrap_or(0);
                        obs.injected_state = Some(if sent > 0 { "Executing".into() } else { "BeforeExecuting?".to_string() });
                        ctl.event(LogEv::Action(format!("inject {stray:?} ->{target} after {k} MPC messages")));
                        stray_task = Some(do_inject(*target, stray, &world));
                        inject_done = true;
                        obs.trigger_fired = true;
                        quiesce(&ctl, baseline_threads).await;
                    }
                }
                if let Some((When::AfterMsg(_), target)) = &plan.cancel {
                    if !cancel_done {
                        obs.target_scheduled_before = sched_issued[*target];
                        ctl.event(LogEv::Action(format!("cancel ->{target} after {k} MPC messages")));
                        cancel_task = Some(do_cancel(*target, &world));
                        cancel_done = true;
                        obs.trigger_fired = true;
                        quiesce(&ctl, baseline_threads).await;
                    }
                }
                ctl.set_gate(None);
                continue;
            }
        }
        if let Some((When::Step(k), target, stray)) = &plan.inject {
            if !inject_done && *k == step {
                let log = ctl.inner.lock().unwrap().log.clone();
                obs.injected_state = Some(party_state(&log, *target, &sched_issued, cfg.leader).to_string());
                ctl.event(LogEv::Action(format!("inject {stray:?} ->{target} at step {step}")));
                stray_task = Some(do_inject(*target, stray, &world));
                inject_done = true;
                obs.trigger_fired = true;
                quiesce(&ctl, baseline_threads).await;
            }
        }
        if let Some((When::Step(k), target)) = &plan.cancel2 {
            if !cancel2_done && *k <= step && cancel_done {
                ctl.event(LogEv::Action(format!("second cancel ->{target} at step {step}")));
                let h = world.handles[*target].clone();
                let c2 = ctl.clone();
                let t = *target;
                cancel2_task = Some(tokio::spawn(async move {
                    let r = h.cancel().await.map_err(|e| format!("{e:?}"));
                    c2.event(LogEv::StrayDone { idx: 1000 + t, result: r });
                }));
                cancel2_done = true;
                quiesce(&ctl, baseline_threads).await;
            }
        }
        if let Some((When::OutputInFlight, target)) = &plan.cancel {
            if !cancel_done && ctl.pending_full().iter().any(|p| p.1 == RpcKind::Output && p.2 == *target) {
                obs.target_scheduled_before = sched_issued[*target];
                obs.injected_state = Some("Executing(result being delivered)".into());
                ctl.event(LogEv::Action(format!("cancel ->{target} while its notification is in flight")));
                cancel_task = Some(do_cancel(*target, &world));
                cancel_done = true;
                obs.trigger_fired = true;
                quiesce(&ctl, baseline_threads).await;
            }
        }
        if let Some((When::Step(k), target)) = &plan.cancel {
            if !cancel_done && *k == step {
                let log = ctl.inner.lock().unwrap().log.clone();
                obs.injected_state = Some(party_state(&log, *target, &sched_issued, cfg.leader).to_string());
                obs.target_scheduled_before = sched_issued[*target];
                ctl.event(LogEv::Action(format!("cancel ->{target} at step {step}")));
                cancel_task = Some(do_cancel(*target, &world));
                cancel_done = true;
                obs.trigger_fired = true;
                quiesce(&ctl, baseline_threads).await;
            }
        }
        // enabled actions
        let mut enabled: Vec<Act> = vec![];
        for p in 0..n {
            if !sched_issued[p] {
                enabled.push(Act::Schedule(p));
            }
        }
        let pend_full = ctl.pending_full();
        let pend: Vec<(usize, RpcKind, usize, usize)> = pend_full.iter().map(|p| (p.0, p.1, p.2, p.3)).collect();
        for (pid, _, _, _) in &pend {
            enabled.push(Act::Deliver(*pid));
        }
        if enabled.is_empty() {
            break;
        }
        obs.branching.push(enabled.len());
        let choice = match (plan.script.get(step), &plan.strategy) {
            (Some(c), _) => (*c).min(enabled.len() - 1),
            (None, Some(st)) => strategy_pick(st, &enabled, &pend_full, &mut strat_rng),
            (None, None) => 0,
        };
        obs.choices.push(choice);
        let scheduled_this_step = matches!(enabled[choice], Act::Schedule(_)).then(|| match enabled[choice] {
            Act::Schedule(p) => p,
            _ => usize::MAX,
        });
        match enabled[choice] {
            Act::Schedule(p) => {
                ctl.event(LogEv::Action(format!("schedule {p}")));
                sched_issued[p] = true;
                let h = world.handles[p].clone();
                let pol = policies[p].clone();
                let c2 = ctl.clone();
                sched_tasks[p] = Some(tokio::spawn(async move {
                    let r = h.schedule(pol).await.map_err(|e| format!("{e:?}"));
                    c2.event(LogEv::ScheduleDone { party: p, result: r });
                }));
            }
            Act::Deliver(pid) if pend_full.iter().any(|x| x.0 == pid && x.1 == RpcKind::Output) => {
                let (_, _, from, _, _) = *pend_full.iter().find(|x| x.0 == pid).unwrap();
                ctl.event(LogEv::Action(format!("deliver notification of {from}")));
                ctl.decide(pid, Decision::Deliver);
            }
            Act::Deliver(pid) if pend_full.iter().any(|x| x.0 == pid && x.4) => {
                let (_, kind, from, to, _) = *pend_full.iter().find(|x| x.0 == pid).unwrap();
                let kname = format!("{kind:?}").to_lowercase();
                obs.coverage.push("response-delayed".into());
                ctl.event(LogEv::Action(format!("deliver response {kname} {to}->{from}")));
                ctl.decide(pid, Decision::Deliver);
            }
            Act::Deliver(pid) => {
                let (_, kind, from, to) = *pend.iter().find(|x| x.0 == pid).unwrap();
                // coverage: validate delivered before the target's schedule / consts in which phase
                if kind == RpcKind::Validate && !sched_issued[to] {
                    obs.coverage.push("validate-before-schedule".into());
                }
                if kind == RpcKind::Consts {
                    let log = ctl.inner.lock().unwrap().log.clone();
                    let target_consts_done = log.iter().filter(|e| matches!(e, LogEv::RpcDone { kind: RpcKind::Consts, from: f, .. } if *f == to)).count();
                    obs.coverage.push(format!("consts-arrive-after-{}-own-consts-sent", target_consts_done));
                }
                let fail = !failed && plan.fail_rpc == Some((kind, from, to));
                let kname = format!("{kind:?}").to_lowercase();
                if fail {
                    failed = true;
                    obs.failed_rpc = true;
                    ctl.event(LogEv::Action(format!("fail {kname} {from}->{to}")));
                    ctl.decide(pid, Decision::Fail);
                } else {
                    ctl.event(LogEv::Action(format!("deliver {kname} ->{to}")));
                    ctl.decide(pid, Decision::Deliver);
                }
            }
        }
        // immediate triggers
        if let Some((When::AfterAction(k), target)) = &plan.cancel {
            if !cancel_done && *k == step {
                // the cancel command overtakes a schedule call that was issued by this very action
                obs.target_scheduled_before = sched_issued[*target] && scheduled_this_step != Some(*target);
                ctl.event(LogEv::Action(format!("cancel ->{target} immediately after action {step}")));
                // truly immediate: the cancel command is put into the party's queue before any task
                // woken by the action has run (first poll of the call here, the rest in a task)
                let h = world.handles[*target].clone();
                let ctl2 = world.ctl.clone();
                let t = *target;
                let mut fut = Box::pin(async move { h.cancel().await.map_err(|e| format!("{e:?}")) });
                match futures_util::poll!(fut.as_mut()) {
                    std::task::Poll::Ready(r) => {
                        ctl2.event(LogEv::CancelDone { party: t, result: r });
                        cancel_task = Some(tokio::spawn(async {}));
                    }
                    std::task::Poll::Pending => {
                        cancel_task = Some(tokio::spawn(async move {
                            let r = fut.await;
                            ctl2.event(LogEv::CancelDone { party: t, result: r });
                        }));
                    }
                }
                cancel_done = true;
                obs.trigger_fired = true;
            }
        }
        if let Some((When::WhileCompiling, target)) = &plan.cancel {
            if !cancel_done {
                // spin until the compile thread is alive or the system is quiescent again
                let mut idle = 0;
                loop {
                    let before = ctl.events();
                    for _ in 0..5 {
                        tokio::task::yield_now().await;
                    }
                    if thread_count() > baseline_threads {
                        obs.target_scheduled_before = sched_issued[*target];
                        ctl.event(LogEv::Action(format!("cancel ->{target} while the compile thread is alive")));
                        cancel_task = Some(do_cancel(*target, &world));
                        cancel_done = true;
                        obs.trigger_fired = true;
                        break;
                    }
                    if ctl.events() == before {
                        idle += 1;
                        if idle > 20 {
                            break;
                        }
                    } else {
                        idle = 0;
                    }
                }
            }
        }
        step += 1;
        if step > 400 {
            break;
        }
    }
    quiesce(&ctl, baseline_threads).await;
    obs.steps = step;
    let log = ctl.inner.lock().unwrap().log.clone();
    for e in &log {
        if let LogEv::ScheduleDone { party, result } = e {
            obs.schedule[*party] = Some(result.clone());
        }
    }
    obs.outputs = ctl.outputs();
    for a in &world.actors {
        obs.actor_finished.push(a.is_finished());
    }
    // a finished actor task that panicked: join it to find out
    let mut actors = world.actors;
    for (i, a) in actors.drain(..).enumerate() {
        if obs.actor_finished[i] {
            match a.await {
                Ok(()) => obs.actor_panicked.push(false),
                Err(e) => obs.actor_panicked.push(e.is_panic()),
            }
        } else {
            obs.actor_panicked.push(false);
            a.abort();
        }
    }
    obs.permits = world.sems.iter().map(|s| s.available_permits()).collect();
    obs.msgs = ctl.inner.lock().unwrap().msgs_issued;
    obs.pending_left = ctl.pending_ids().len();
    if plan.inject.is_some() {
        obs.stray = Some(log.iter().find_map(|e| if let LogEv::StrayDone { idx, result } = e { (*idx < 1000).then(|| result.clone()) } else { None }));
    }
    if plan.cancel.is_some() {
        obs.cancel = Some(log.iter().enumerate().find_map(|(i, e)| if let LogEv::CancelDone { result, .. } = e { Some((result.clone(), i)) } else { None }));
    }
    obs.log_len = log.len();
    obs.inflight_calls = ctl.inflight_calls();
    if plan.cancel2.is_some() {
        obs.cancel2 = Some(log.iter().find_map(|e| if let LogEv::StrayDone { idx, result } = e { (*idx >= 1000).then(|| result.clone()) } else { None }));
    }
    if let Some(t) = cancel2_task {
        t.abort();
    }
    for t in sched_tasks.into_iter().flatten() {
        t.abort();
    }
    if let Some(t) = stray_task {
        t.abort();
    }
    if let Some(t) = cancel_task {
        t.abort();
    }
    obs
}

/// Runs one exploration on a fresh current-thread runtime.
pub fn explore_blocking(cfg: &SrvConfig, plan: &Plan) -> Obs {
    let rt = tokio::runtime::Builder::new_current_thread().build().expect("runtime");
    let baseline = thread_count();
    let obs = rt.block_on(explore(cfg, plan, baseline));
    drop(rt);
    // wait for stray compile threads of aborted sessions to end so the next baseline is clean
    let mut spins = 0;
    while thread_count() > baseline && spins < 20_000 {
        std::thread::sleep(std::time::Duration::from_micros(200));
        spins += 1;
    }
    obs
}
