//! Several policies (sessions) in flight at once, sharing one concurrency semaphore per party.
use std::sync::Arc;
use std::sync::atomic::AtomicU64;

use polytune_server_core::PolicyState;
use serde::{Deserialize, Serialize};
use tokio::sync::Semaphore;
use tokio::task::JoinHandle;
use uuid::Uuid;

use super::{Builder, Ctl, Decision, LogEv, RpcKind, SrvConfig, thread_count};

#[derive(Clone, Debug, Serialize, Deserialize)]
pub struct Batch {
    pub n: usize,
    pub concurrency: usize,
    pub sessions: Vec<SrvConfig>,
    /// choice vector over the union of enabled actions of all sessions
    pub script: Vec<u8>,
    /// fail the first coordination RPC (session, kind, from, to)
    pub fail: Option<(usize, RpcKind, usize, usize)>,
    /// cancel every party of this session at this step
    #[serde(default)]
    pub cancel: Option<(usize, usize)>,
}

#[derive(Clone, Debug, Default, Serialize)]
pub struct SessionObs {
    pub schedule: Vec<Option<Result<(), String>>>,
    pub outputs: Vec<(usize, Result<String, String>, u64)>,
    pub actor_finished: Vec<bool>,
    pub actor_panicked: Vec<bool>,
    /// logical time the leader issued its first run RPC
    pub run_issued: Option<u64>,
    /// logical time of the leader's last own activity that certainly lies inside the period in
    /// which it holds the permit: an MPC message it sent or its result notification
    /// (completions of RPCs and calls *towards* the leader are not counted: they can be logged
    /// after the leader's policy has ended)
    pub leader_last: u64,
    pub failed_rpc_fired: bool,
    /// results of the cancel calls (per party), None = never returned
    pub cancels: Vec<Option<Result<(), String>>>,
    /// coordination calls still in flight at final quiescence (a real transport would time them out)
    pub inflight_calls: usize,
}

#[derive(Clone, Debug, Default, Serialize)]
pub struct BatchObs {
    pub sessions: Vec<SessionObs>,
    pub permits: Vec<usize>,
    pub steps: usize,
    pub min_permits_seen: Vec<usize>,
}

struct Sess {
    ctl: Arc<Ctl>,
    actors: Vec<JoinHandle<()>>,
    handles: Vec<polytune_server_core::PolicyStateHandle>,
    sched_issued: Vec<bool>,
    tasks: Vec<JoinHandle<()>>,
}

async fn quiesce_all(sess: &[Sess], baseline: usize) {
    let total = |s: &[Sess]| -> u64 { s.iter().map(|x| x.ctl.events()).sum() };
    let mut stable = 0;
    let mut spins = 0u64;
    loop {
        let before = total(sess);
        for _ in 0..40 {
            tokio::task::yield_now().await;
        }
        let threads = thread_count();
        if total(sess) == before && threads <= baseline {
            stable += 1;
            if stable >= 3 {
                return;
            }
        } else {
            stable = 0;
            if threads > baseline {
                std::thread::sleep(std::time::Duration::from_micros(300));
            }
        }
        spins += 1;
        if spins > 2_000_000 {
            return;
        }
    }
}

pub async fn explore_batch(b: &Batch, baseline: usize) -> BatchObs {
    let n = b.n;
    let sems: Vec<Arc<Semaphore>> = (0..n).map(|_| Arc::new(Semaphore::new(b.concurrency))).collect();
    let clock = Arc::new(AtomicU64::new(1));
    let mut sess: Vec<Sess> = vec![];
    for _ in &b.sessions {
        let ctl = Arc::new(Ctl { inner: Default::default(), clock: clock.clone(), inflight: Default::default() });
        let mut actors = vec![];
        let mut handles = vec![];
        for p in 0..n {
            let (state, handle) = PolicyState::new(Builder { ctl: ctl.clone() }, sems[p].clone());
            actors.push(tokio::spawn(state.start()));
            handles.push(handle);
        }
        ctl.inner.lock().unwrap().handles = handles.iter().cloned().map(Some).collect();
        sess.push(Sess { ctl, actors, handles, sched_issued: vec![false; n], tasks: vec![] });
    }
    let mut obs = BatchObs { min_permits_seen: vec![b.concurrency; n], ..Default::default() };
    let mut failed = false;
    let mut fired = vec![false; b.sessions.len()];
    let mut step = 0usize;
    let mut cancelled = false;
    loop {
        quiesce_all(&sess, baseline).await;
        if let Some((si, k)) = b.cancel {
            if !cancelled && step >= k && si < sess.len() {
                cancelled = true;
                for p in 0..n {
                    let h = sess[si].handles[p].clone();
                    let c2 = sess[si].ctl.clone();
                    c2.event(LogEv::Action(format!("cancel {p}")));
                    let t = tokio::spawn(async move {
                        let r = h.cancel().await.map_err(|e| format!("{e:?}"));
                        c2.event(LogEv::CancelDone { party: p, result: r });
                    });
                    sess[si].tasks.push(t);
                }
                quiesce_all(&sess, baseline).await;
            }
        }
        for p in 0..n {
            obs.min_permits_seen[p] = obs.min_permits_seen[p].min(sems[p].available_permits());
        }
        // enabled: (session, action)
        let mut enabled: Vec<(usize, Result<usize, (usize, RpcKind, usize, usize)>)> = vec![];
        for (si, s) in sess.iter().enumerate() {
            for p in 0..n {
                if !s.sched_issued[p] {
                    enabled.push((si, Ok(p)));
                }
            }
            for (id, kind, from, to) in s.ctl.pending_ids() {
                enabled.push((si, Err((id, kind, from, to))));
            }
        }
        if enabled.is_empty() {
            break;
        }
        let choice = b.script.get(step).map(|c| (*c as usize * enabled.len()) >> 8).unwrap_or(0);
        let (si, act) = enabled[choice].clone();
        match act {
            Ok(p) => {
                sess[si].sched_issued[p] = true;
                let h = sess[si].handles[p].clone();
                let pol = b.sessions[si].policy(p, Uuid::from_u128(0x1000 + si as u128));
                let c2 = sess[si].ctl.clone();
                c2.event(LogEv::Action(format!("schedule {p}")));
                let t = tokio::spawn(async move {
                    let r = h.schedule(pol).await.map_err(|e| format!("{e:?}"));
                    c2.event(LogEv::ScheduleDone { party: p, result: r });
                });
                sess[si].tasks.push(t);
            }
            Err((id, kind, from, to)) => {
                let fail = !failed && b.fail == Some((si, kind, from, to));
                if fail {
                    failed = true;
                    fired[si] = true;
                    sess[si].ctl.event(LogEv::Action(format!("fail {kind:?} {from}->{to}")));
                    sess[si].ctl.decide(id, Decision::Fail);
                } else {
                    sess[si].ctl.decide(id, Decision::Deliver);
                }
            }
        }
        step += 1;
        if step > 3000 {
            break;
        }
    }
    quiesce_all(&sess, baseline).await;
    obs.steps = step;
    obs.permits = sems.iter().map(|s| s.available_permits()).collect();
    for (si, s) in sess.into_iter().enumerate() {
        let leader = b.sessions[si].leader;
        let g = s.ctl.inner.lock().unwrap();
        let mut so = SessionObs { schedule: vec![None; n], failed_rpc_fired: fired[si], cancels: vec![None; n], ..Default::default() };
        for (i, e) in g.log.iter().enumerate() {
            let t = g.log_time.get(i).copied().unwrap_or(0);
            match e {
                LogEv::ScheduleDone { party, result } => so.schedule[*party] = Some(result.clone()),
                LogEv::CancelDone { party, result } => so.cancels[*party] = Some(result.clone()),
                LogEv::Output { party, result } => {
                    so.outputs.push((*party, result.clone(), t));
                    if *party == leader {
                        so.leader_last = so.leader_last.max(t);
                    }
                }
                LogEv::RpcIssued { kind: RpcKind::Run, from, .. } if *from == leader => {
                    if so.run_issued.is_none() {
                        so.run_issued = Some(t);
                    }
                }
                _ => {}
            }
        }
        so.leader_last = so.leader_last.max(g.last_msg_time.get(leader).copied().unwrap_or(0));
        so.inflight_calls = s.ctl.inflight_calls();
        drop(g);
        for a in &s.actors {
            so.actor_finished.push(a.is_finished());
        }
        for (i, a) in s.actors.into_iter().enumerate() {
            if so.actor_finished[i] {
                so.actor_panicked.push(matches!(a.await, Err(e) if e.is_panic()));
            } else {
                so.actor_panicked.push(false);
                a.abort();
            }
        }
        for t in s.tasks {
            t.abort();
        }
        obs.sessions.push(so);
    }
    obs
}

pub fn explore_batch_blocking(b: &Batch) -> BatchObs {
    let rt = tokio::runtime::Builder::new_current_thread().build().expect("runtime");
    let baseline = thread_count();
    let obs = rt.block_on(explore_batch(b, baseline));
    drop(rt);
    let mut spins = 0;
    while thread_count() > baseline && spins < 20_000 {
        std::thread::sleep(std::time::Duration::from_micros(200));
        spins += 1;
    }
    obs
}
