//! Server-core explorer: two or three `PolicyState` actors with an in-process `PolicyClient`
//! whose coordination RPCs are released one at a time by the explorer, on a current-thread tokio
//! runtime, with exact quiescence detection (event counter + OS thread count).
use std::collections::HashMap;
use std::sync::{Arc, Mutex};

use garble_lang::literal::Literal;
use polytune_server_core::{ConstsRequest, MpcMsg, OutputError, Policy, PolicyClient, PolicyClientBuilder, PolicyState, PolicyStateHandle, RunRequest, ValidateRequest};
use serde::{Deserialize, Serialize};
use tokio::sync::{Semaphore, oneshot};
use tokio::task::JoinHandle;
use url::Url;
use uuid::Uuid;

#[derive(Clone, Copy, Debug, PartialEq, Eq, Hash, Serialize, Deserialize)]
pub enum RpcKind {
    Validate,
    Run,
    Consts,
    /// delivery of a notification to the output destination (only with `hold_outputs`)
    Output,
}

#[derive(Debug)]
pub enum Decision {
    Deliver,
    Fail,
}

pub struct Pending {
    pub id: usize,
    pub kind: RpcKind,
    pub from: usize,
    pub to: usize,
    /// false: the request waits to be delivered; true: the callee has answered and the
    /// response waits to be delivered back to the caller
    pub is_reply: bool,
    tx: Option<oneshot::Sender<Decision>>,
}

#[derive(Clone, Debug, Serialize)]
pub enum LogEv {
    RpcIssued { id: usize, kind: RpcKind, from: usize, to: usize },
    RpcDone { id: usize, kind: RpcKind, from: usize, to: usize, ok: bool },
    Output { party: usize, result: Result<String, String> },
    ScheduleDone { party: usize, result: Result<(), String> },
    StrayDone { idx: usize, result: Result<(), String> },
    CancelDone { party: usize, result: Result<(), String> },
    Action(String),
}

#[derive(Default)]
pub struct CtlInner {
    pub pending: Vec<Pending>,
    pub next_id: usize,
    pub events: u64,
    pub log: Vec<LogEv>,
    /// logical time of each log entry
    pub log_time: Vec<u64>,
    /// logical time of the last MPC message sent per party
    pub last_msg_time: Vec<u64>,
    pub msgs_issued: usize,
    pub msgs_delivered: usize,
    /// MPC messages sent per party
    pub msgs_from: Vec<usize>,
    /// when Some(k): msg RPCs block once k messages have been delivered
    pub msg_gate: Option<usize>,
    msg_waiters: Vec<oneshot::Sender<()>>,
    pub handles: Vec<Option<PolicyStateHandle>>,
    /// deliver responses as separate explorer actions
    pub split_replies: bool,
    /// notifications to the output destination are in flight until the explorer delivers them
    pub hold_outputs: bool,
}

#[derive(Default)]
pub struct Ctl {
    pub inner: Mutex<CtlInner>,
    /// shared logical clock (several sessions of one batch share it)
    pub clock: Arc<std::sync::atomic::AtomicU64>,
    /// coordination calls (validate / run / consts) that have been issued and not yet returned to
    /// their caller; a real transport would end these with a timeout
    pub inflight: std::sync::atomic::AtomicUsize,
}

pub struct InflightGuard<'a>(&'a Ctl);
impl Drop for InflightGuard<'_> {
    fn drop(&mut self) {
        self.0.inflight.fetch_sub(1, std::sync::atomic::Ordering::SeqCst);
    }
}
impl Ctl {
    pub fn enter_call(&self) -> InflightGuard<'_> {
        self.inflight.fetch_add(1, std::sync::atomic::Ordering::SeqCst);
        InflightGuard(self)
    }
    pub fn inflight_calls(&self) -> usize {
        self.inflight.load(std::sync::atomic::Ordering::SeqCst)
    }
}

impl Ctl {
    pub fn event(&self, ev: LogEv) {
        let t = self.clock.fetch_add(1, std::sync::atomic::Ordering::SeqCst);
        let mut g = self.inner.lock().unwrap();
        g.events += 1;
        g.log.push(ev);
        g.log_time.push(t);
    }
    pub fn tick(&self) -> u64 {
        self.clock.fetch_add(1, std::sync::atomic::Ordering::SeqCst)
    }
    pub fn events(&self) -> u64 {
        self.inner.lock().unwrap().events
    }
    pub fn bump(&self) {
        self.inner.lock().unwrap().events += 1;
    }
    pub fn handle(&self, p: usize) -> Option<PolicyStateHandle> {
        self.inner.lock().unwrap().handles.get(p).cloned().flatten()
    }
    pub fn pending_ids(&self) -> Vec<(usize, RpcKind, usize, usize)> {
        self.inner.lock().unwrap().pending.iter().map(|p| (p.id, p.kind, p.from, p.to)).collect()
    }
    pub fn pending_full(&self) -> Vec<(usize, RpcKind, usize, usize, bool)> {
        self.inner.lock().unwrap().pending.iter().map(|p| (p.id, p.kind, p.from, p.to, p.is_reply)).collect()
    }
    pub fn decide(&self, id: usize, d: Decision) -> bool {
        let mut g = self.inner.lock().unwrap();
        if let Some(pos) = g.pending.iter().position(|p| p.id == id) {
            let mut p = g.pending.remove(pos);
            g.events += 1;
            if let Some(tx) = p.tx.take() {
                return tx.send(d).is_ok();
            }
        }
        false
    }
    pub fn set_gate(&self, gate: Option<usize>) {
        let mut g = self.inner.lock().unwrap();
        g.msg_gate = gate;
        g.events += 1;
        for w in g.msg_waiters.drain(..) {
            let _ = w.send(());
        }
    }
    pub fn outputs(&self) -> Vec<(usize, Result<String, String>, usize)> {
        let g = self.inner.lock().unwrap();
        g.log.iter().enumerate().filter_map(|(i, e)| if let LogEv::Output { party, result } = e { Some((*party, result.clone(), i)) } else { None }).collect()
    }
}

#[derive(Debug, thiserror::Error)]
#[error("client error: {0}")]
pub struct ClientErr(pub String);

#[derive(Clone)]
pub struct Client {
    pub ctl: Arc<Ctl>,
    pub party: usize,
}

pub struct Builder {
    pub ctl: Arc<Ctl>,
}

impl PolicyClientBuilder for Builder {
    type Client = Client;
    fn new_client(&self, policy: &Policy) -> Client {
        Client { ctl: self.ctl.clone(), party: policy.party }
    }
}

impl Client {
    async fn coord(&self, kind: RpcKind, to: usize) -> Result<(usize, PolicyStateHandle), ClientErr> {
        let (tx, rx) = oneshot::channel();
        let id = {
            let mut g = self.ctl.inner.lock().unwrap();
            let id = g.next_id;
            g.next_id += 1;
            g.pending.push(Pending { id, kind, from: self.party, to, is_reply: false, tx: Some(tx) });
            g.events += 1;
            g.log.push(LogEv::RpcIssued { id, kind, from: self.party, to });
            let t = self.ctl.clock.fetch_add(1, std::sync::atomic::Ordering::SeqCst);
            g.log_time.push(t);
            id
        };
        match rx.await {
            Ok(Decision::Deliver) => {}
            Ok(Decision::Fail) => {
                self.ctl.event(LogEv::RpcDone { id, kind, from: self.party, to, ok: false });
                return Err(ClientErr("injected transport failure".into()));
            }
            Err(_) => return Err(ClientErr("explorer dropped the request".into())),
        }
        match self.ctl.handle(to) {
            Some(h) => Ok((id, h)),
            None => Err(ClientErr(format!("no such party {to}"))),
        }
    }
    /// With split replies the response travels back as a separate explorer action.
    async fn reply_gate(&self, kind: RpcKind, to: usize) {
        let rx = {
            let mut g = self.ctl.inner.lock().unwrap();
            if !g.split_replies {
                return;
            }
            let (tx, rx) = oneshot::channel();
            let id = g.next_id;
            g.next_id += 1;
            g.pending.push(Pending { id, kind, from: self.party, to, is_reply: true, tx: Some(tx) });
            g.events += 1;
            rx
        };
        let _ = rx.await;
    }

    fn done<E: std::fmt::Debug>(&self, id: usize, kind: RpcKind, to: usize, r: Result<(), E>) -> Result<(), ClientErr> {
        self.ctl.event(LogEv::RpcDone { id, kind, from: self.party, to, ok: r.is_ok() });
        r.map_err(|e| ClientErr(format!("{e:?}")))
    }
}

impl PolicyClient for Client {
    type Error = ClientErr;

    async fn validate(&self, to: usize, req: ValidateRequest) -> Result<(), ClientErr> {
        let _g = self.ctl.enter_call();
        let (id, h) = self.coord(RpcKind::Validate, to).await?;
        let r = h.validate(req).await;
        self.reply_gate(RpcKind::Validate, to).await;
        self.done(id, RpcKind::Validate, to, r)
    }

    async fn run(&self, to: usize, req: RunRequest) -> Result<(), ClientErr> {
        let _g = self.ctl.enter_call();
        let (id, h) = self.coord(RpcKind::Run, to).await?;
        let r = h.run(req).await;
        self.reply_gate(RpcKind::Run, to).await;
        self.done(id, RpcKind::Run, to, r)
    }

    async fn consts(&self, to: usize, req: ConstsRequest) -> Result<(), ClientErr> {
        let _g = self.ctl.enter_call();
        let (id, h) = self.coord(RpcKind::Consts, to).await?;
        let r = h.consts(req).await;
        self.reply_gate(RpcKind::Consts, to).await;
        self.done(id, RpcKind::Consts, to, r)
    }

    async fn msg(&self, to: usize, msg: MpcMsg) -> Result<(), ClientErr> {
        loop {
            let wait = {
                let mut g = self.ctl.inner.lock().unwrap();
                match g.msg_gate {
                    Some(k) if g.msgs_delivered >= k => {
                        let (tx, rx) = oneshot::channel();
                        g.msg_waiters.push(tx);
                        Some(rx)
                    }
                    _ => {
                        g.msgs_delivered += 1;
                        g.msgs_issued += 1;
                        let me = self.party;
                        if g.msgs_from.len() <= me {
                            g.msgs_from.resize(me + 1, 0);
                        }
                        g.msgs_from[me] += 1;
                        if g.last_msg_time.len() <= me {
                            g.last_msg_time.resize(me + 1, 0);
                        }
                        g.last_msg_time[me] = self.ctl.clock.fetch_add(1, std::sync::atomic::Ordering::SeqCst);
                        g.events += 1;
                        None
                    }
                }
            };
            match wait {
                Some(rx) => {
                    let _ = rx.await;
                }
                None => break,
            }
        }
        let Some(h) = self.ctl.handle(to) else { return Err(ClientErr(format!("no such party {to}"))) };
        let r = h.mpc_msg(msg).await;
        self.ctl.bump();
        r.map_err(|e| ClientErr(format!("{e:?}")))
    }

    async fn output(&self, _to: Url, result: Result<Literal, OutputError>) -> Result<(), ClientErr> {
        let r = match result {
            Ok(l) => Ok(format!("{l}")),
            Err(e) => Err(output_err_kind(&e)),
        };
        // a destination that is not instantaneous: the notification counts as received only once the
        // explorer has delivered it (the call may be dropped by the caller before that)
        let rx = {
            let mut g = self.ctl.inner.lock().unwrap();
            if g.hold_outputs {
                let (tx, rx) = oneshot::channel();
                let id = g.next_id;
                g.next_id += 1;
                g.pending.push(Pending { id, kind: RpcKind::Output, from: self.party, to: self.party, is_reply: false, tx: Some(tx) });
                g.events += 1;
                Some(rx)
            } else {
                None
            }
        };
        if let Some(rx) = rx {
            if rx.await.is_err() {
                return Err(ClientErr("destination unreachable".into()));
            }
        }
        self.ctl.event(LogEv::Output { party: self.party, result: r });
        Ok(())
    }
}

pub fn output_err_kind(e: &OutputError) -> String {
    let s = format!("{e:?}");
    s.split(['(', ' ', '{']).next().unwrap_or("").to_string()
}

// ---------------------------------------------------------------------------------------------
// programs with native oracles
// ---------------------------------------------------------------------------------------------

#[derive(Clone, Debug, PartialEq, Eq, Hash, Serialize, Deserialize)]
pub struct Prog {
    pub n: usize,
    /// which parties supply a constant K
    pub consts_from: Vec<bool>,
    pub variant: u8,
}

impl Prog {
    pub fn source(&self) -> String {
        let mut s = String::new();
        for (p, c) in self.consts_from.iter().enumerate() {
            if *c {
                s.push_str(&format!("const K{p}: u8 = PARTY_{p}::K;\n"));
            }
        }
        let args: Vec<String> = (0..self.n).map(|p| format!("x{p}: u8")).collect();
        let mut expr = match self.variant % 3 {
            0 => "(x0 & x1)".to_string(),
            1 => "(x0 ^ x1)".to_string(),
            _ => "(x0 | x1)".to_string(),
        };
        if self.n == 3 {
            expr = format!("({expr} ^ x2)");
        }
        for (p, c) in self.consts_from.iter().enumerate() {
            if *c {
                expr = format!("({expr} ^ (K{p} & x{}))", (p + 1) % self.n);
            }
        }
        format!("{s}pub fn main({}) -> u8 {{ {expr} }}\n", args.join(", "))
    }

    pub fn eval(&self, x: &[u8], k: &[u8]) -> u8 {
        let mut v = match self.variant % 3 {
            0 => x[0] & x[1],
            1 => x[0] ^ x[1],
            _ => x[0] | x[1],
        };
        if self.n == 3 {
            v ^= x[2];
        }
        for (p, c) in self.consts_from.iter().enumerate() {
            if *c {
                v ^= k[p] & x[(p + 1) % self.n];
            }
        }
        v
    }
}

#[derive(Clone, Debug, PartialEq, Eq, Hash, Serialize, Deserialize)]
pub struct SrvConfig {
    pub prog: Prog,
    pub leader: usize,
    /// output destination present per party
    pub outputs: Vec<bool>,
    pub inputs: Vec<u8>,
    pub consts: Vec<u8>,
    pub concurrency: usize,
}

impl SrvConfig {
    pub fn n(&self) -> usize {
        self.prog.n
    }
    pub fn expected(&self) -> String {
        format!("{}", Literal::from(self.prog.eval(&self.inputs, &self.consts)))
    }
    pub fn policy(&self, party: usize, id: Uuid) -> Policy {
        let n = self.n();
        let mut constants = HashMap::new();
        if self.prog.consts_from[party] {
            constants.insert("K".to_string(), Literal::from(self.consts[party]));
        }
        Policy {
            computation_id: id,
            participants: (0..n).map(|p| Url::parse(&format!("http://party{p}.invalid:8000/")).unwrap()).collect(),
            program: self.prog.source(),
            leader: self.leader,
            party,
            input: Literal::from(self.inputs[party]),
            output: self.outputs[party].then(|| Url::parse(&format!("http://out{party}.invalid/output")).unwrap()),
            constants,
        }
    }
}

// ---------------------------------------------------------------------------------------------
// world
// ---------------------------------------------------------------------------------------------

pub struct SrvWorld {
    pub ctl: Arc<Ctl>,
    pub n: usize,
    pub sems: Vec<Arc<Semaphore>>,
    pub actors: Vec<JoinHandle<()>>,
    pub handles: Vec<PolicyStateHandle>,
    pub permits_initial: usize,
}

impl SrvWorld {
    pub fn new(n: usize, concurrency: usize) -> Self {
        let ctl = Arc::new(Ctl::default());
        let mut sems = vec![];
        let mut actors = vec![];
        let mut handles = vec![];
        for _ in 0..n {
            let sem = Arc::new(Semaphore::new(concurrency));
            let (state, handle) = PolicyState::new(Builder { ctl: ctl.clone() }, sem.clone());
            actors.push(tokio::spawn(state.start()));
            handles.push(handle);
            sems.push(sem);
        }
        ctl.inner.lock().unwrap().handles = handles.iter().cloned().map(Some).collect();
        SrvWorld { ctl, n, sems, actors, handles, permits_initial: concurrency }
    }
}

pub fn thread_count() -> usize {
    std::fs::read_to_string("/proc/self/status")
        .ok()
        .and_then(|s| s.lines().find(|l| l.starts_with("Threads:")).and_then(|l| l.split_whitespace().nth(1).and_then(|x| x.parse().ok())))
        .unwrap_or(1)
}

/// Runs until nothing can happen without an explorer action: no event for 3 rounds of 40 yields
/// and no extra OS thread (the compile thread is the only out-of-runtime wake source).
pub async fn quiesce(ctl: &Ctl, baseline_threads: usize) {
    let mut stable = 0;
    let mut spins = 0u64;
    loop {
        let before = ctl.events();
        for _ in 0..40 {
            tokio::task::yield_now().await;
        }
        let threads = thread_count();
        if ctl.events() == before && threads <= baseline_threads {
            stable += 1;
            if stable >= 3 {
                return;
            }
        } else {
            stable = 0;
            if threads > baseline_threads {
                std::thread::sleep(std::time::Duration::from_micros(300));
            }
        }
        spins += 1;
        if spins > 2_000_000 {
            return;
        }
    }
}

pub mod explore;
pub mod shard;
pub mod batch;
