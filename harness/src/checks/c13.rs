//! C13 - server core: compatible policies always run to exactly one correct result each.
use serde::{Deserialize, Serialize};
use serde_json::json;

use crate::fw::{CaseInfo, Ctx, Fail, Tier, hash_of};
use crate::sim::sched::Mix;
use crate::srv::explore::{Obs, Plan, Strategy, explore_blocking};
use crate::srv::RpcKind;
use crate::srv::shard::{UnitResult, run_parent, run_worker, worker_id};
use crate::srv::{Prog, SrvConfig};

#[derive(Clone, Debug, Serialize, Deserialize)]
pub struct Case {
    pub cfg: SrvConfig,
    pub plan: Plan,
}

#[derive(Clone, Debug, Serialize, Deserialize)]
pub enum Unit {
    /// exhaustive DFS below the given prefix of choices
    Dfs { cfg: SrvConfig, prefix: Vec<usize> },
    /// random deeper paths
    Random { cfg: SrvConfig, seed: u64, count: usize },
    /// strategy-driven paths with requests and responses delivered separately
    Strategies { cfg: SrvConfig, seed: u64 },
}

/// The C13 oracle on an undisturbed session; also used by C14 for "the outcome is unchanged".
pub fn oracle(cfg: &SrvConfig, obs: &Obs) -> Result<(), Fail> {
    let n = cfg.n();
    for p in 0..n {
        match &obs.schedule[p] {
            Some(Ok(())) => {}
            Some(Err(e)) => return Err(Fail::new("C13|schedule-error", format!("schedule of party {p} returned {e}"))),
            None => return Err(Fail::new("C13|schedule-pending", format!("schedule of party {p} never returned"))),
        }
    }
    let want = cfg.expected();
    for p in 0..n {
        let outs: Vec<_> = obs.outputs.iter().filter(|o| o.0 == p).collect();
        if cfg.outputs[p] {
            match outs.as_slice() {
                [(_, Ok(l), _)] if *l == want => {}
                other => return Err(Fail::new("C13|wrong-output", format!("party {p} expects exactly one result {want}, destination received {:?}", other.iter().map(|o| &o.1).collect::<Vec<_>>()))),
            }
        } else if !outs.is_empty() {
            return Err(Fail::new("C13|unexpected-output", format!("party {p} has no output destination but {:?} was sent", outs.iter().map(|o| &o.1).collect::<Vec<_>>())));
        }
    }
    if let Some(p) = obs.actor_panicked.iter().position(|x| *x) {
        return Err(Fail::new("C13|actor-panic", format!("state machine of party {p} panicked")));
    }
    if let Some(p) = obs.actor_finished.iter().position(|x| !*x) {
        return Err(Fail::new("C13|actor-alive", format!("state machine of party {p} did not stop (permits {:?})", obs.permits)));
    }
    if obs.permits.iter().any(|x| *x != cfg.concurrency) {
        return Err(Fail::new("C13|permit-leak", format!("permits at quiescence {:?}, configured {}", obs.permits, cfg.concurrency)));
    }
    if obs.pending_left != 0 {
        return Err(Fail::new("C13|rpc-left", format!("{} coordination RPCs never answered", obs.pending_left)));
    }
    Ok(())
}

pub fn test_case(c: &Case) -> (Result<CaseInfo, Fail>, Obs) {
    let obs = explore_blocking(&c.cfg, &c.plan);
    let r = oracle(&c.cfg, &obs).map(|_| {
        let mut cov = obs.coverage.clone();
        cov.sort();
        cov.dedup();
        let nontrivial = !cov.is_empty();
        let mut classes: Vec<String> = cov.iter().map(|c| format!("cov:{c}")).collect();
        classes.push(format!("n={}", c.cfg.n()));
        classes.push(format!("leader={}", c.cfg.leader));
        classes.push(format!("consts_parties={}", c.cfg.prog.consts_from.iter().filter(|x| **x).count()));
        CaseInfo {
            nontrivial: nontrivial.then(|| hash_of(&serde_json::to_string(c).unwrap())),
            classes,
            sample: Some(json!({"n": c.cfg.n(), "leader": c.cfg.leader, "consts_from": c.cfg.prog.consts_from, "outputs": c.cfg.outputs, "script": c.plan.script, "branching": obs.branching, "mpc_messages": obs.msgs, "program": c.cfg.prog.source()})),
            ..Default::default()
        }
    });
    (r, obs)
}

/// `count` pseudo-random schedule prefixes (choice indices are reduced modulo the number of
/// enabled actions by the explorer), derived from the seed
pub fn random_scripts(seed: u64, count: usize) -> Vec<Vec<usize>> {
    let mut m = crate::sim::sched::Mix(seed ^ 0x5c51_9a7e);
    (0..count).map(|_| (0..2 + m.below(6)).map(|_| m.below(4)).collect()).collect()
}

/// next script in DFS order below a fixed first choice; None when exhausted
pub fn next_script(script: &[usize], branching: &[usize], fixed_prefix: usize) -> Option<Vec<usize>> {
    let mut s: Vec<usize> = (0..branching.len()).map(|i| script.get(i).copied().unwrap_or(0)).collect();
    let mut i = s.len();
    while i > fixed_prefix {
        i -= 1;
        if s[i] + 1 < branching[i] {
            s[i] += 1;
            s.truncate(i + 1);
            return Some(s);
        }
    }
    None
}

fn run_unit(u: &Unit, emit: &mut dyn FnMut(UnitResult)) {
    match u {
        Unit::Dfs { cfg, prefix } => {
            let mut script = prefix.clone();
            loop {
                let case = Case { cfg: cfg.clone(), plan: Plan { script: script.clone(), ..Default::default() } };
                let (r, obs) = test_case(&case);
                if prefix.iter().enumerate().any(|(d, c)| obs.branching.get(d).map(|b| *c >= *b).unwrap_or(true)) {
                    break; // this prefix does not exist
                }
                match r {
                    Ok(i) => emit(UnitResult::Ok(i)),
                    Err(f) => emit(UnitResult::Fail(f, serde_json::to_value(&case).unwrap())),
                }
                match next_script(&script, &obs.branching, prefix.len()) {
                    Some(s) => script = s,
                    None => break,
                }
            }
        }
        Unit::Strategies { cfg, seed } => {
            let n = cfg.n();
            let mut sts = vec![Strategy::RepliesLast, Strategy::RequestsLast, Strategy::Last, Strategy::HoldKind(RpcKind::Validate), Strategy::HoldKind(RpcKind::Run), Strategy::HoldKind(RpcKind::Consts)];
            for p in 0..n {
                sts.push(Strategy::Starve(p));
            }
            for k in 0..6 {
                sts.push(Strategy::Random(seed.wrapping_mul(31).wrapping_add(k)));
            }
            for st in sts {
                for prefix in [vec![], vec![1], vec![2, 1]] {
                    let plan = Plan { script: prefix, split_replies: true, strategy: Some(st.clone()), ..Default::default() };
                    let obs0 = explore_blocking(cfg, &plan);
                    // report the concrete path so that the replay does not depend on the strategy code
                    let case = Case { cfg: cfg.clone(), plan: Plan { script: obs0.choices.clone(), split_replies: true, ..Default::default() } };
                    match oracle(cfg, &obs0) {
                        Ok(()) => {
                            let (r, _) = (Ok::<(), Fail>(()), ());
                            let _ = r;
                            let mut cov = obs0.coverage.clone();
                            cov.sort();
                            cov.dedup();
                            let mut classes: Vec<String> = cov.iter().map(|c| format!("cov:{c}")).collect();
                            classes.push(format!("n={n}"));
                            classes.push(format!("strategy={}", format!("{st:?}").split('(').next().unwrap_or("")));
                            emit(UnitResult::Ok(CaseInfo { nontrivial: Some(hash_of(&serde_json::to_string(&case).unwrap())), classes, sample: Some(json!({"n": n, "leader": cfg.leader, "strategy": format!("{st:?}"), "split_replies": true, "choices": obs0.choices, "consts_from": cfg.prog.consts_from})), ..Default::default() }));
                        }
                        Err(f) => emit(UnitResult::Fail(f, serde_json::to_value(&case).unwrap())),
                    }
                }
            }
        }
        Unit::Random { cfg, seed, count } => {
            let mut m = Mix(*seed);
            for _ in 0..*count {
                let script: Vec<usize> = (0..40).map(|_| m.below(6)).collect();
                let case = Case { cfg: cfg.clone(), plan: Plan { script, ..Default::default() } };
                let (r, _) = test_case(&case);
                match r {
                    Ok(i) => emit(UnitResult::Ok(i)),
                    Err(f) => emit(UnitResult::Fail(f, serde_json::to_value(&case).unwrap())),
                }
            }
        }
    }
}

pub fn configs(n: usize, consts_parties: usize, seed: u64, all_leaders: bool) -> Vec<SrvConfig> {
    let mut v = vec![];
    let leaders: Vec<usize> = if all_leaders { (0..n).collect() } else { vec![(seed as usize) % n] };
    for leader in leaders {
        // which parties supply constants: rotate with leader so that leader-with / leader-without both occur
        let mut consts_from = vec![false; n];
        for k in 0..consts_parties {
            consts_from[(leader + 1 + k) % n] = true;
        }
        let m = (seed as usize).wrapping_add(leader * 3 + consts_parties);
        v.push(SrvConfig {
            prog: Prog { n, consts_from, variant: (m % 3) as u8 },
            leader,
            outputs: (0..n).map(|p| (m >> p) & 1 == 0 || p == leader).collect(),
            inputs: (0..n).map(|p| (m * 37 + p * 101) as u8).collect(),
            consts: (0..n).map(|p| (m * 11 + p * 59) as u8 | 1).collect(),
            concurrency: 1 + m % 2,
        });
    }
    v
}

pub fn units(tier: Tier, seed: u64) -> Vec<Unit> {
    let mut u = vec![];
    let mut add_dfs = |cfg: SrvConfig| {
        // split by the first two choices (prefixes that do not exist end immediately)
        for first in 0..cfg.n() {
            for second in 0..=cfg.n() {
                u.push(Unit::Dfs { cfg: cfg.clone(), prefix: vec![first, second] });
            }
        }
    };
    for c in 0..=2 {
        for cfg in configs(2, c, seed, true) {
            add_dfs(cfg);
        }
    }
    for c in 0..=tier.pick(1, 2) {
        for cfg in configs(3, c, seed, tier == Tier::Thorough || c == 0) {
            add_dfs(cfg);
        }
    }
    if tier == Tier::Thorough {
        for cfg in configs(3, 3, seed, false) {
            add_dfs(cfg);
        }
    }
    // strategy-driven paths with separately delivered responses
    for n in [2usize, 3] {
        for c in 0..=n {
            for (i, cfg) in configs(n, c, seed + 7, n == 2 || tier == Tier::Thorough).into_iter().enumerate() {
                u.push(Unit::Strategies { cfg, seed: seed * 77 + (c * 10 + i) as u64 });
            }
        }
    }
    // random deeper paths through the larger spaces
    let deep = configs(3, 2, seed + 1, false).into_iter().chain(configs(3, 3, seed + 2, false));
    for (i, cfg) in deep.enumerate() {
        for k in 0..16 {
            u.push(Unit::Random { cfg: cfg.clone(), seed: seed * 1000 + (i * 16 + k) as u64, count: tier.pick(8, 60) });
        }
    }
    u
}

pub fn run(tier: Tier, seed: u64) -> i32 {
    if let Some((k, of)) = worker_id() {
        return run_worker(units(tier, seed), k, of, run_unit);
    }
    let ctx = Ctx::new("C13", tier, seed, "exploration");
    ctx.set_rule("stateless exhaustive DFS (odometer over the choice stack, one real session per path) over the arrival order of schedule calls and the delivery order of every validate / run / consts RPC: n=2 with constants from 0/1/2 parties and every leader, n=3 with constants from 0 and 1 party (thorough: 2 and 3), plus random deeper paths through n=3 with constants from 2 and 3 parties, plus strategy-driven paths in which the *response* of every coordination RPC is delivered as a separate action (responses last, requests last, starve party p, hold one RPC kind, uniform random, last-enabled) for n=2,3 and every number of constant-supplying parties; output destination present/absent per party, concurrency 1..2; MPC messages auto-delivered FIFO; oracle: every schedule Ok, each party with a destination receives exactly one result equal to the native Rust evaluation of the program, none without, every state machine stopped without panic, all permits back at exact quiescence, no RPC unanswered; non-trivial = path on which a validate is delivered before its target's schedule or constants arrive in different phases (coverage classes); distinct by hash of (configuration, path)");
    ctx.assume("exact quiescence = no client event over 3 x 40 yields on a current-thread runtime and no extra OS thread (compile thread)");
    let n_units = units(tier, seed).len();
    ctx.extra("work_units", json!(n_units));
    run_parent(&ctx, "C13", n_units);
    ctx.finish()
}

pub fn replay(path: &str) -> i32 {
    crate::fw::replay_case::<Case, _>("C13", path, 2, |c| test_case(c).0)
}
