pub mod c01;

use crate::fw::Tier;

pub fn dispatch(id: &str, tier: Tier, seed: u64, replay: Option<&str>) -> i32 {
    match (id, replay) {
        ("C01", None) => c01::run(tier, seed),
        ("C01", Some(p)) => c01::replay(p),
        _ => {
            eprintln!("unknown property {id}");
            2
        }
    }
}
