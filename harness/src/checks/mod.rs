pub mod c01;
pub mod c02;
pub mod c03;
pub mod c04;
pub mod c04c;
pub mod c05;
pub mod c06;
pub mod c06lin;
pub mod c07;
pub mod c08;
pub mod c09;
pub mod c10;
pub mod c11;
pub mod c12;
pub mod c13;
pub mod c14;
pub mod c15;
pub mod c16;
pub mod c17;
pub mod c18;
pub mod c19;
pub mod c20;
pub mod dump;
pub mod md;

use crate::fw::Tier;

pub fn dispatch(id: &str, tier: Tier, seed: u64, replay: Option<&str>) -> i32 {
    macro_rules! d {
        ($m:ident) => {
            match replay {
                None => $m::run(tier, seed),
                Some(p) => $m::replay(p),
            }
        };
    }
    match id {
        "C01" => d!(c01),
        "C02" => d!(c02),
        "C03" => d!(c03),
        "C04" => d!(c04),
        "C05" => d!(c05),
        "C06" => d!(c06),
        "C07" => d!(c07),
        "C08" => d!(c08),
        "C09" => d!(c09),
        "C10" => d!(c10),
        "C11" => d!(c11),
        "C12" => d!(c12),
        "C13" => d!(c13),
        "C14" => d!(c14),
        "C15" => d!(c15),
        "C16" => d!(c16),
        "C17" => d!(c17),
        "C18" => d!(c18),
        "C19" => d!(c19),
        "C20" => d!(c20),
        "dump2" => dump::run(2),
        "dump3" => dump::run(3),
        "tapdebug" => dump::tap_debug(),
        "widestats" => dump::wide_stats(),
        _ => {
            eprintln!("unknown property {id}");
            2
        }
    }
}
