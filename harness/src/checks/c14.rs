//! C14 - server core: stray or malformed commands never crash or disturb a computation.
use serde::{Deserialize, Serialize};
use serde_json::json;

use crate::checks::c13::{configs, oracle};
use crate::fw::{CaseInfo, Ctx, Fail, Tier, hash_of};
use crate::srv::SrvConfig;
use crate::srv::explore::{Obs, Plan, Stray, When, explore_blocking};
use crate::srv::shard::{UnitResult, run_parent, run_worker, worker_id};

#[derive(Clone, Debug, Serialize, Deserialize)]
pub struct Case {
    pub cfg: SrvConfig,
    pub plan: Plan,
}

#[derive(Clone, Debug, Serialize, Deserialize)]
pub struct Unit {
    pub cfg: SrvConfig,
    pub script: Vec<usize>,
    pub target: usize,
    pub stray: Stray,
}

fn stray_name(s: &Stray, n: usize) -> String {
    match s {
        Stray::DuplicateSchedule { variant } => format!("duplicate-schedule-{}", ["same", "different", "ill-typed"][*variant as usize % 3]),
        Stray::Validate => "validate-again".into(),
        Stray::Run => "run".into(),
        Stray::Consts { from } => if *from >= n { "consts-from-out-of-range".into() } else { "consts".into() },
        Stray::MpcMsg { from } => if *from >= n { "mpc_msg-from-out-of-range".into() } else { "mpc_msg".into() },
    }
}

/// Is the stray command invalid (must be answered with an error) in the state the target was in?
fn applicable(s: &Stray, state: &str, n: usize, target_scheduled: bool) -> bool {
    let not_validated = matches!(state, "Init" | "ValidateRequested" | "AwaitingValidation");
    let executing = state == "Executing";
    match s {
        Stray::MpcMsg { from } if *from >= n => true,
        Stray::MpcMsg { .. } => matches!(state, "Init" | "ValidateRequested") && !target_scheduled,
        Stray::Consts { from } if *from >= n => true,
        Stray::Consts { .. } | Stray::Run => not_validated || executing,
        // a second validate while the first one is parked (target not yet scheduled) is invalid as well
        Stray::Validate => matches!(state, "Validated" | "Running*" | "Executing" | "ValidateRequested"),
        Stray::DuplicateSchedule { .. } => target_scheduled && state != "LeaderScheduling" || executing || state == "BeforeExecuting?",
    }
}

pub fn test_case(c: &Case) -> Result<CaseInfo, Fail> {
    let obs: Obs = explore_blocking(&c.cfg, &c.plan);
    let Some((_, target, stray)) = &c.plan.inject else { return Ok(CaseInfo::default()) };
    let n = c.cfg.n();
    let name = stray_name(stray, n);
    let state = obs.injected_state.clone().unwrap_or_else(|| "not-injected".into());
    if !obs.trigger_fired {
        return Ok(CaseInfo { classes: vec!["not-injected".into()], ..Default::default() });
    }
    let target_scheduled = true; // resolved below through the recorded state
    let sched = !matches!(state.as_str(), "Init" | "ValidateRequested");
    if !applicable(stray, &state, n, sched && target_scheduled) {
        // The command may be valid for the state it is processed in, so no error is demanded.
        // A `run` request carries nothing but the computation id: whether it is answered Ok or
        // with an error, it must neither panic a state machine nor change the result.
        // (Only at a leader that is inside its own schedule call: there the stray request is queued
        // and processed just before the leader's internal run, which must then be a no-op.  At a
        // follower a stray run in state Validated is indistinguishable from the leader's and makes
        // the real one the duplicate - a legitimate failure, not judged.)
        // An MPC message that names the receiver itself as sender belongs to no peer's stream:
        // whatever the answer, it must not reach the computation.
        let own_sender = matches!(stray, Stray::MpcMsg { from } if from == target);
        if matches!(stray, Stray::Run) && state == "LeaderScheduling" || own_sender {
            if let Some(p) = obs.actor_panicked.iter().position(|x| *x) {
                return Err(Fail::new(format!("C14|actor-panic|{name}"), format!("{name} injected into party {target} in state {state}: state machine of party {p} panicked (schedule results {:?})", obs.schedule)));
            }
            if let Err(f) = oracle(&c.cfg, &obs) {
                return Err(Fail::new(format!("C14|disturbed|{name}"), format!("{name} injected into party {target} in state {state} changed the outcome: {} ({})", f.msg, f.signature)));
            }
            return Ok(CaseInfo {
                nontrivial: Some(hash_of(&serde_json::to_string(c).unwrap())),
                classes: vec![format!("stray={name}(state-valid)"), format!("state={state}"), format!("n={n}")],
                ..Default::default()
            });
        }
        return Ok(CaseInfo { classes: vec![format!("skipped:{name}@{state}")], ..Default::default() });
    }
    if let Some(p) = obs.actor_panicked.iter().position(|x| *x) {
        return Err(Fail::new(format!("C14|actor-panic|{name}"), format!("{name} injected into party {target} in state {state}: state machine of party {p} panicked (schedule results {:?})", obs.schedule)));
    }
    let mut undecided = false;
    match obs.stray.as_ref().and_then(|s| s.as_ref()) {
        Some(Err(_)) => {}
        Some(Ok(())) => return Err(Fail::new(format!("C14|accepted|{name}"), format!("{name} injected into party {target} in state {state} was answered Ok"))),
        None => undecided = true,
    }
    // the undisturbed computation must still produce its result
    if let Err(f) = oracle(&c.cfg, &obs) {
        return Err(Fail::new(format!("C14|disturbed|{name}"), format!("{name} injected into party {target} in state {state} changed the outcome: {} ({})", f.msg, f.signature)));
    }
    Ok(CaseInfo {
        nontrivial: Some(hash_of(&serde_json::to_string(c).unwrap())),
        classes: vec![format!("stray={name}"), format!("state={state}"), format!("n={n}")],
        sample: Some(json!({"n": n, "leader": c.cfg.leader, "target": target, "stray": stray, "when": c.plan.inject.as_ref().map(|i| &i.0), "state": state, "stray_result": obs.stray, "outputs": obs.outputs.iter().map(|o| &o.1).collect::<Vec<_>>()})),
        undecided,
        ..Default::default()
    })
}

fn run_unit(u: &Unit, emit: &mut dyn FnMut(UnitResult)) {
    // length of the undisturbed path and number of MPC messages
    let base = explore_blocking(&u.cfg, &Plan { script: u.script.clone(), ..Default::default() });
    let steps = base.branching.len();
    let mut whens: Vec<When> = (0..=steps).map(When::Step).collect();
    for k in [1usize, 2, 5, 20] {
        if k < base.msgs {
            whens.push(When::AfterMsg(k));
        }
    }
    if base.msgs > 2 {
        whens.push(When::AfterMsg(base.msgs - 1));
    }
    for w in whens {
        let case = Case { cfg: u.cfg.clone(), plan: Plan { script: u.script.clone(), inject: Some((w, u.target, u.stray.clone())), ..Default::default() } };
        match test_case(&case) {
            Ok(i) => emit(UnitResult::Ok(i)),
            Err(f) => emit(UnitResult::Fail(f, serde_json::to_value(&case).unwrap())),
        }
    }
}

pub fn units(tier: Tier, seed: u64) -> Vec<Unit> {
    let mut v = vec![];
    let mut cfgs: Vec<SrvConfig> = vec![];
    cfgs.extend(configs(2, 1, seed, true));
    cfgs.extend(configs(2, 0, seed + 1, false));
    if tier == Tier::Thorough {
        cfgs.extend(configs(2, 2, seed, true));
        cfgs.extend(configs(3, 1, seed, true));
    } else {
        cfgs.extend(configs(3, 1, seed, false));
    }
    for cfg in cfgs {
        let n = cfg.n();
        let mut scripts: Vec<Vec<usize>> = tier.pick(vec![vec![], vec![1, 0, 1], vec![0, 1]], vec![vec![], vec![1, 0, 1], vec![0, 1], vec![0, 1, 1, 1], vec![1, 1, 0, 2]]);
        if tier == Tier::Thorough {
            scripts.extend(crate::checks::c13::random_scripts(seed, 12));
        }
        for script in scripts {
            for target in 0..n {
                for stray in [
                    Stray::DuplicateSchedule { variant: 0 },
                    Stray::DuplicateSchedule { variant: 1 },
                    Stray::DuplicateSchedule { variant: 2 },
                    Stray::Validate,
                    Stray::Run,
                    Stray::Consts { from: (target + 1) % n },
                    Stray::Consts { from: n },
                    Stray::Consts { from: 7 },
                    Stray::MpcMsg { from: n },
                    Stray::MpcMsg { from: 9 },
                    Stray::MpcMsg { from: (target + 1) % n },
                    Stray::MpcMsg { from: target },
                ] {
                    v.push(Unit { cfg: cfg.clone(), script: script.clone(), target, stray });
                }
            }
        }
    }
    v
}

pub fn run(tier: Tier, seed: u64) -> i32 {
    if let Some((k, of)) = worker_id() {
        return run_worker(units(tier, seed), k, of, run_unit);
    }
    let ctx = Ctx::new("C14", tier, seed, "fault_enumeration");
    ctx.set_rule("systematic enumeration: stray command kind {duplicate schedule (same policy / different valid program / ill-typed program), validate again, run, constants with in-range and out-of-range sender, MPC message with out-of-range sender, MPC message before scheduling, MPC message naming the receiver itself as sender} x target party x every quiescent point of a normal 2- and 3-party session (several coordination orders) and after the k-th MPC message for k in {1,2,5,20,last} (the computation is held at that point by the in-process client); an error answer is demanded only where the command is invalid for the state the target was in; a stray `run` queued at a leader that is inside its own schedule call is additionally judged for 'no panic, outcome unchanged'; otherwise a case counts only where the command is invalid (state reconstructed from the history; run/constants only before validation or during execution, validate only after validation, duplicate schedule only after the first schedule); oracle: the stray call is answered with an error, no state machine panics, and the session still satisfies the complete C13 oracle (every schedule Ok, exactly one correct result per destination, actors stopped, permits back); non-trivial = applicable injection; distinct by hash of the case");
    let n_units = units(tier, seed).len();
    ctx.extra("work_units", json!(n_units));
    run_parent(&ctx, "C14", n_units);
    ctx.finish()
}

pub fn replay(path: &str) -> i32 {
    crate::fw::replay_case::<Case, _>("C14", path, 2, test_case)
}
