//! C16 - server core: incompatible policies are rejected before any MPC traffic.
use serde::{Deserialize, Serialize};
use serde_json::json;

use crate::checks::c13::{configs, next_script};
use crate::fw::{CaseInfo, Ctx, Fail, Tier, hash_of};
use crate::srv::SrvConfig;
use crate::srv::explore::{Mismatch, Obs, Plan, explore_blocking};
use crate::srv::shard::{UnitResult, run_parent, run_worker, worker_id};

#[derive(Clone, Debug, Serialize, Deserialize)]
pub struct Case {
    pub cfg: SrvConfig,
    pub plan: Plan,
}

#[derive(Clone, Debug, Serialize, Deserialize)]
pub struct Unit {
    pub cfg: SrvConfig,
    pub mismatch: Mismatch,
    /// responses of the coordination RPCs as separate explorer actions (thorough)
    #[serde(default)]
    pub split: bool,
}

pub fn test_case(c: &Case) -> (Result<CaseInfo, Fail>, Obs) {
    let obs = explore_blocking(&c.cfg, &c.plan);
    let Some(mm) = &c.plan.mismatch else { return (Ok(CaseInfo::default()), obs) };
    let leader = c.cfg.leader;
    let (kind, must_fail): (&str, Vec<usize>) = match mm {
        Mismatch::Program { party, kind } => (["program(comment appended)", "program(operator changed)", "program(line break moved)"][*kind as usize % 3], vec![leader, *party]),
        Mismatch::Leader { party, .. } => ("leader", vec![leader, *party]),
        Mismatch::IllTyped { party } => ("ill-typed", vec![*party]),
    };
    let r = (|| {
        for p in &must_fail {
            match &obs.schedule[*p] {
                Some(Err(_)) => {}
                Some(Ok(())) => return Err(Fail::new(format!("C16|schedule-ok|{kind}"), format!("{mm:?}: schedule of party {p} returned Ok (script {:?})", c.plan.script))),
                None => return Err(Fail::new(format!("C16|schedule-pending|{kind}"), format!("{mm:?}: schedule of party {p} never returned (script {:?}, branching {:?})", c.plan.script, obs.branching))),
            }
        }
        if let Some(o) = obs.outputs.iter().find(|o| o.1.is_ok()) {
            return Err(Fail::new(format!("C16|success-output|{kind}"), format!("{mm:?}: party {} was sent a successful result {:?}", o.0, o.1)));
        }
        if obs.msgs != 0 {
            return Err(Fail::new(format!("C16|mpc-traffic|{kind}"), format!("{mm:?}: {} MPC messages were exchanged", obs.msgs)));
        }
        if let Some(p) = obs.actor_panicked.iter().position(|x| *x) {
            return Err(Fail::new(format!("C16|actor-panic|{kind}"), format!("{mm:?}: state machine of party {p} panicked")));
        }
        Ok(())
    })();
    let validate_first = obs.coverage.iter().any(|c| c == "validate-before-schedule");
    (
        r.map(|_| CaseInfo {
            nontrivial: Some(hash_of(&serde_json::to_string(c).unwrap())),
            classes: vec![format!("mismatch={kind}"), format!("n={}", c.cfg.n()), if validate_first { "validate-before-schedule".into() } else { "schedule-before-validate".into() }],
            sample: Some(json!({"n": c.cfg.n(), "leader": leader, "mismatch": mm, "script": c.plan.script, "schedule_results": obs.schedule})),
            ..Default::default()
        }),
        obs,
    )
}

fn run_unit(u: &Unit, emit: &mut dyn FnMut(UnitResult)) {
    // exhaustive DFS over arrival / delivery orders
    let mut script: Vec<usize> = vec![];
    let mut count = 0;
    loop {
        let case = Case { cfg: u.cfg.clone(), plan: Plan { script: script.clone(), mismatch: Some(u.mismatch.clone()), split_replies: u.split, ..Default::default() } };
        let (r, obs) = test_case(&case);
        match r {
            Ok(i) => emit(UnitResult::Ok(i)),
            Err(f) => emit(UnitResult::Fail(f, serde_json::to_value(&case).unwrap())),
        }
        count += 1;
        match next_script(&script, &obs.branching, 0) {
            Some(s) if count < if u.split { 3000 } else { 400 } => script = s,
            _ => break,
        }
    }
}

pub fn units(tier: Tier, seed: u64) -> Vec<Unit> {
    let mut v = vec![];
    for (n, split) in if tier == Tier::Thorough { vec![(2usize, false), (3, false), (2, true), (3, true)] } else { vec![(2usize, false), (3, false)] } {
        for cfg in configs(n, (seed as usize) % 2, seed, tier == Tier::Thorough || n == 2) {
            let leader = cfg.leader;
            for party in 0..n {
                if party != leader {
                    for kind in 0..3u8 {
                        v.push(Unit { cfg: cfg.clone(), mismatch: Mismatch::Program { party, kind }, split });
                    }
                    if n == 3 {
                        let other = (0..n).find(|p| *p != leader && *p != party).unwrap();
                        v.push(Unit { cfg: cfg.clone(), mismatch: Mismatch::Leader { party, claims: other }, split });
                    }
                }
                v.push(Unit { cfg: cfg.clone(), mismatch: Mismatch::IllTyped { party }, split });
            }
        }
    }
    v
}

pub fn run(tier: Tier, seed: u64) -> i32 {
    if let Some((k, of)) = worker_id() {
        return run_worker(units(tier, seed), k, of, run_unit);
    }
    let ctx = Ctx::new("C16", tier, seed, "exploration");
    ctx.set_rule("exhaustive DFS over arrival orders of the schedule calls and delivery orders of the coordination RPCs (<= 400 paths per unit; thorough: also with the RPC responses as separate actions, <= 3000 paths per unit) for: program-text mismatch at each follower (n=2,3; three kinds of difference: appended comment, changed operator, same characters with a line break moved into a comment), leader-index mismatch at a follower naming another follower (n=3), ill-typed program at each party; oracle: the schedule calls of the leader and of the mismatching follower (resp. of the party with the ill-typed program) return an error, no destination is sent a successful result, zero MPC messages are issued by the in-process client, no state machine panics; other followers may linger; distinct by hash of (configuration, mismatch, path)");
    let n_units = units(tier, seed).len();
    ctx.extra("work_units", json!(n_units));
    run_parent(&ctx, "C16", n_units);
    ctx.finish()
}

pub fn replay(path: &str) -> i32 {
    crate::fw::replay_case::<Case, _>("C16", path, 2, |c| test_case(c).0)
}
