//! C12 - result independent of message scheduling; no deadlock on 1-slot channels.
use std::sync::Mutex;
use std::collections::HashSet;

use serde_json::json;

use crate::circ::{CircParams, CircSpec, GOp};
use crate::fw::{CaseInfo, Ctx, Fail, Tier, prop_search};
use crate::gens::{CaseParams, gen_case_for};
use crate::run::{Adversary, MpcCase, run_mpc, short};
use crate::sim::exec::{ExecCfg, Outcome};

pub fn test_case(case: &MpcCase, seen: Option<&Mutex<HashSet<u64>>>) -> Result<CaseInfo, Fail> {
    // every send stays outstanding for one scheduling step, so that sends joined concurrently
    // towards one peer are seen by the monitor
    let run = run_mpc(case, Adversary::default(), &ExecCfg { record_probes: false, slow_sends: true, ..Default::default() });
    let exp = case.expected();
    if run.res.outcomes.iter().any(|o| matches!(o, Outcome::Budget)) {
        return Ok(CaseInfo { undecided: true, ..Default::default() });
    }
    if let Some(m) = &run.res.m1 {
        return Err(Fail::new("C12|two-ops-outstanding", m.clone()));
    }
    for p in 0..case.n() {
        let want: Vec<bool> = if case.p_out.contains(&p) { exp.clone() } else { vec![] };
        match &run.res.outcomes[p] {
            Outcome::Ok(v) if *v == want => {}
            Outcome::Stalled(on) => {
                return Err(Fail::new("C12|deadlock", format!("party {p} blocked on {on:?} with nothing enabled (cap={}, sched={:?})", case.cap, case.sched.kind())));
            }
            o => return Err(Fail::new("C12|wrong-result", format!("party {p}: expected Ok({want:?}) got {}", short(o)))),
        }
    }
    if run.res.leftover.iter().any(|l| *l != 0) {
        return Err(Fail::new("C12|leftover", format!("{:?}", run.res.leftover)));
    }
    let fresh = match seen {
        Some(s) => s.lock().unwrap().insert(run.res.trace_hash),
        None => true,
    };
    let nontrivial = fresh && run.res.nondefault_choices >= 1;
    let shape = if case.circ.and_ops == 0 {
        "no_and"
    } else if case.circ.and_ops > 1000 {
        "chunked(>1000 ANDs)"
    } else {
        "few_ands"
    };
    Ok(CaseInfo {
        nontrivial: nontrivial.then_some(run.res.trace_hash),
        classes: vec![format!("n={}", case.n()), format!("cap={}", case.cap), format!("sched={}", case.sched.kind()), shape.into(), format!("p_eval={}", case.p_eval)],
        sample: Some(json!({"n": case.n(), "cap": case.cap, "sched": case.sched.kind(), "p_eval": case.p_eval, "p_out": case.p_out, "ands": case.circ.and_ops, "steps": run.res.steps, "nondefault_choices": run.res.nondefault_choices, "trace_hash": format!("{:016x}", run.res.trace_hash)})),
        ..Default::default()
    })
}

/// a small fixed family of circuits for n parties: (a) XOR only, (b) a few ANDs
fn fixed_circ(n: usize, ands: bool) -> CircSpec {
    let mut insts = vec![];
    for p in 0..n {
        insts.push((p as u32, GOp::Input { party: p as u32, input: 0 }));
    }
    let mut r = n as u32;
    insts.push((r, GOp::Xor(0, 1)));
    if ands {
        insts.push((r + 1, GOp::And(0, r)));
        insts.push((r + 2, GOp::Not(r + 1)));
        insts.push((r, GOp::And(r + 2, (n - 1) as u32)));
        insts.push((r + 1, GOp::Xor(r, 1)));
        r += 1;
    }
    CircSpec { input_regs: vec![1; n], insts, max_reg_count: n + 3, output_regs: vec![r, n as u32], and_ops: if ands { 2 } else { 0 } }
}

pub fn run(tier: Tier, seed: u64) -> i32 {
    let ctx = Ctx::new("C12", tier, seed, "exploration");
    ctx.set_rule("proptest: schedules (uniform random, PCT with 1..4 change points, starve(p), lazy delivery, reverse, explicit choice vectors) x link capacity {1,2,unbounded} x n in 2..4 x every p_eval x three circuit shapes (no AND / few ANDs / >1000 ANDs streamed in chunks) driven by the harness-owned single-threaded executor; oracle: every party finishes with the clear-text result, monitor 'at most one send and one receive outstanding per peer' silent, deadlock detected exactly (nothing enabled while a future is unfinished); non-trivial = delivery/poll trace hash not seen before in this run and >=1 scheduling decision differing from the default order");
    ctx.assume("per-pair FIFO reliable links with >=1 slot; sampling of interleavings, not exhaustive");
    let seen = Mutex::new(HashSet::new());
    // (a) fixed small circuits: many schedules
    for n in 2..=4usize {
        for ands in [false, true] {
            if ctx.stopped() {
                break;
            }
            let circ = fixed_circ(n, ands);
            let cp = CaseParams { circ: CircParams::default(), all_scheds: true, caps: vec![1, 1, 2, 0], tmp: false };
            let cases = tier.pick(if n == 4 { 50 } else { 90 }, if n == 4 { 2500 } else { 5000 });
            prop_search(&ctx, &format!("fixed-{n}-{ands}"), cases, || gen_case_for(circ.clone(), cp.clone()), |c| test_case(c, Some(&seen)));
        }
    }
    // (b) generated circuits
    if !ctx.stopped() {
        let cp = CaseParams { circ: CircParams { n_min: 2, n_max: 4, max_gates: 25, ..Default::default() }, all_scheds: true, caps: vec![1, 2, 0], tmp: false };
        prop_search(&ctx, "generated", tier.pick(100, 8000), || crate::gens::gen_case(cp.clone()), |c| test_case(c, Some(&seen)));
    }
    // (c) chunk streaming
    if !ctx.stopped() {
        let cp = CaseParams { circ: CircParams { n_min: 2, n_max: 3, max_gates: 5, bulk: vec![1001, 2003], bulk_prob: 255, ..Default::default() }, all_scheds: true, caps: vec![1, 1, 2], tmp: false };
        prop_search(&ctx, "chunked", tier.pick(24, 900), || crate::gens::gen_case(cp.clone()), |c| test_case(c, Some(&seen)));
    }
    // (d) messages larger than 64 KiB and wide outputs under 1-slot links
    if !ctx.stopped() {
        let cp = CaseParams { circ: CircParams::huge_regs(2, 3), all_scheds: true, caps: vec![1, 1, 2], tmp: false };
        prop_search(&ctx, "huge_regs", tier.pick(16, 200), || crate::gens::gen_case(cp.clone()), |c| test_case(c, Some(&seen)));
    }
    if !ctx.stopped() {
        let cp = CaseParams { circ: CircParams::wide(2, 4), all_scheds: true, caps: vec![1, 2], tmp: false };
        prop_search(&ctx, "wide", tier.pick(16, 200), || crate::gens::gen_case(cp.clone()), |c| test_case(c, Some(&seen)));
    }
    ctx.finish()
}

pub fn replay(path: &str) -> i32 {
    crate::fw::replay_case::<MpcCase, _>("C12", path, 3, |c| test_case(c, None))
}
