//! C03 - tampering with authenticated values in the online phase makes the victim abort.
use serde_json::json;

use crate::adv::{Anchor, AttackCase, Fault, TapAction, TapSpec, Target};
use crate::checks::md::{Entry, test_entry, wl};
use crate::circ::{CircSpec, GOp};
use crate::fw::{Ctx, Tier, enumerate};
use crate::run::{Adversary, MpcCase, run_mpc};
use crate::sim::exec::ExecCfg;
use crate::trace::{check_codec, decode, some_positions};
use crate::wire::{MsgMut, TreeMut, Val};

/// every input feeds an AND gate on a path to an output
pub fn circ(n: usize, variant: usize) -> CircSpec {
    let mut insts = vec![];
    let mut r = 0u32;
    for p in 0..n {
        for i in 0..2 {
            insts.push((r, GOp::Input { party: p as u32, input: i }));
            r += 1;
        }
    }
    let x = |p: usize, i: usize| (2 * p + i) as u32;
    let b = r;
    let mut ands = 0;
    // acc0 = AND of all first bits, acc1 = AND of all second bits (with a NOT in variant 1)
    insts.push((b, GOp::And(x(0, 0), x(1, 0))));
    insts.push((b + 1, GOp::And(x(0, 1), x(1, 1))));
    ands += 2;
    for p in 2..n {
        insts.push((b, GOp::And(b, x(p, 0))));
        insts.push((b + 1, GOp::And(b + 1, x(p, 1))));
        ands += 2;
    }
    if variant == 1 {
        insts.push((b + 1, GOp::Not(b + 1)));
    }
    insts.push((b + 2, GOp::Xor(b, b + 1)));
    insts.push((b + 3, GOp::And(b + 2, x(0, 0))));
    ands += 1;
    CircSpec { input_regs: vec![2; n], insts, max_reg_count: b as usize + 4, output_regs: vec![b, b + 1, b + 3, b], and_ops: ands }
}

const INPUT_PHASE: [&str; 4] = ["preprocessed gates", "wire shares", "masked inputs", "labels"];

pub fn entries(base: &MpcCase, corrupt: usize, mac_bits: &[u32]) -> Result<Vec<Entry>, String> {
    let tmpl = run_mpc(base, Adversary::default(), &ExecCfg { record_probes: false, ..Default::default() });
    if let Err(e) = check_codec(&tmpl.res.msgs) {
        eprintln!("note: wire grammar is stale for this tree ({e}); table rows of such messages are skipped");
    }
    if !tmpl.res.outcomes.iter().all(|o| o.is_ok()) {
        return Err("template run failed".into());
    }
    let n = base.n();
    let mut out = vec![];
    let mk = |row: &str, k: usize, mu: MsgMut, victims: Vec<usize>, whitelist: Vec<String>| Entry {
        row: row.to_string(),
        attack: AttackCase { faults: vec![Fault { target: Target::SenderIdx(k), mutation: mu }], ..AttackCase::honest(base.clone(), corrupt) },
        victims,
        anchor: Anchor::Tampered,
        whitelist,
        ot_group: false,
    };
    // pairs of positions: two alterations in one message that would cancel in an XOR-aggregated check
    let pairs = |pos: &[usize]| -> Vec<(usize, usize)> {
        let mut v = vec![];
        for i in 0..pos.len() {
            for j in i + 1..pos.len() {
                if pos.len() <= 4 || j == i + 1 || (i == 0 && j == pos.len() - 1) {
                    v.push((pos[i], pos[j]));
                }
            }
        }
        v
    };
    for m in tmpl.res.msgs.iter().filter(|m| m.from == corrupt) {
        let k = m.sender_idx;
        let Some(v) = decode(m) else { continue };
        match m.label.as_str() {
            "wire shares" | "output wire shares" | "lambda" if m.label != "wire shares" && (m.to == corrupt || !base.p_out.contains(&m.to)) => {}
            _ => {}
        }
        if matches!(m.label.as_str(), "wire shares" | "output wire shares" | "lambda") && (m.label == "wire shares" || base.p_out.contains(&m.to)) {
            let w = if m.label == "wire shares" { wl(&["wire shares"]) } else { wl(&["output wire shares", "lambda"]) };
            for (a, b) in pairs(&some_positions(&v)) {
                let both = |field: usize, tm: TreeMut| MsgMut::Multi(vec![(vec![a, 0, field], tm.clone()), (vec![b, 0, field], tm)]);
                out.push(mk(&format!("{}: value bit flipped at two registers", m.label), k, both(0, TreeMut::FlipBit(0)), vec![m.to], w.clone()));
                out.push(mk(&format!("{}: same MAC/label bit flipped at two registers", m.label), k, both(1, TreeMut::FlipBit(mac_bits[0])), vec![m.to], w.clone()));
            }
        }
        match m.label.as_str() {
            "wire shares" => {
                for w in some_positions(&v) {
                    out.push(mk("wire shares: share bit", k, MsgMut::Tree { path: vec![w, 0, 0], m: TreeMut::FlipBit(0) }, vec![m.to], wl(&["wire shares"])));
                    for b in mac_bits {
                        out.push(mk("wire shares: MAC", k, MsgMut::Tree { path: vec![w, 0, 1], m: TreeMut::FlipBit(*b) }, vec![m.to], wl(&["wire shares"])));
                    }
                    out.push(mk("wire shares: Some->None", k, MsgMut::Tree { path: vec![w], m: TreeMut::ToggleOpt }, vec![m.to], wl(&["wire shares"])));
                }
            }
            "labels" => {
                for w in some_positions(&v) {
                    for (row, tm) in [("labels: bit flip", TreeMut::FlipBit(0)), ("labels: bit flip", TreeMut::FlipBit(127)), ("labels: random", TreeMut::Randomise(5))] {
                        out.push(mk(row, k, MsgMut::Tree { path: vec![w, 0], m: tm }, vec![m.to], wl(&INPUT_PHASE)));
                    }
                    out.push(mk("labels: Some->None", k, MsgMut::Tree { path: vec![w], m: TreeMut::ToggleOpt }, vec![m.to], wl(&INPUT_PHASE)));
                }
            }
            "preprocessed gates" => {
                if let Val::Seq(gates) = &v {
                    for (g, gate) in gates.iter().enumerate() {
                        let rowlen = match gate {
                            Val::Tup(rows) => match &rows[0] {
                                Val::Bytes(b) => b.len() as u32,
                                _ => 0,
                            },
                            _ => 0,
                        };
                        if rowlen == 0 {
                            continue;
                        }
                        // the same bit offset flipped in all four rows: first byte, tag, middle, last
                        for (cls, bit) in [("first", 0u32), ("tag", (rowlen - 16) * 8 + 3), ("middle", rowlen * 4), ("last", rowlen * 8 - 1)] {
                            let ms = (0..4).map(|r| (vec![g, r], TreeMut::FlipBit(bit))).collect();
                            out.push(mk(&format!("garbled row: byte flipped in all four rows ({cls})"), k, MsgMut::Multi(ms), vec![m.to], wl(&INPUT_PHASE)));
                        }
                    }
                }
            }
            "output wire shares" => {
                if m.to == corrupt || !base.p_out.contains(&m.to) {
                    continue;
                }
                for o in some_positions(&v) {
                    out.push(mk("output wire shares: share bit", k, MsgMut::Tree { path: vec![o, 0, 0], m: TreeMut::FlipBit(0) }, vec![m.to], wl(&["output wire shares", "lambda"])));
                    for b in mac_bits {
                        out.push(mk("output wire shares: MAC", k, MsgMut::Tree { path: vec![o, 0, 1], m: TreeMut::FlipBit(*b) }, vec![m.to], wl(&["output wire shares", "lambda"])));
                    }
                }
            }
            "lambda" => {
                for o in some_positions(&v) {
                    out.push(mk("lambda: value", k, MsgMut::Tree { path: vec![o, 0, 0], m: TreeMut::FlipBit(0) }, vec![m.to], wl(&["output wire shares", "lambda"])));
                    out.push(mk("lambda: label", k, MsgMut::Tree { path: vec![o, 0, 1], m: TreeMut::FlipBit(1) }, vec![m.to], wl(&["output wire shares", "lambda"])));
                    out.push(mk("lambda: label", k, MsgMut::Tree { path: vec![o, 0, 1], m: TreeMut::Randomise(3) }, vec![m.to], wl(&["output wire shares", "lambda"])));
                    out.push(mk("lambda: Some->None", k, MsgMut::Tree { path: vec![o], m: TreeMut::ToggleOpt }, vec![m.to], wl(&["output wire shares", "lambda"])));
                }
            }
            "masked inputs" if n >= 3 => {
                // equivocation: this copy differs from the one sent to the other recipient(s)
                for w in some_positions(&v) {
                    let honest: Vec<usize> = (0..n).filter(|p| *p != corrupt).collect();
                    out.push(mk("masked inputs: different values to different parties", k, MsgMut::Tree { path: vec![w, 0], m: TreeMut::FlipBit(0) }, honest, wl(&["masked inputs"])));
                }
            }
            _ => {}
        }
    }
    // the share garbled into a row (tap: the row still decrypts, its share bit is flipped in all four rows)
    if corrupt != base.p_eval {
        for (w, (_, op)) in base.circ.insts.iter().enumerate() {
            if matches!(op, GOp::And(..)) {
                let taps = (0..4).map(|r| TapSpec { site: "garble_row".into(), idx: Some(w * 4 + r), action: TapAction::Flip }).collect();
                out.push(Entry {
                    row: "garbled row: share bit flipped in all four rows (tap)".into(),
                    attack: AttackCase { taps, ..AttackCase::honest(base.clone(), corrupt) },
                    victims: vec![base.p_eval],
                    anchor: Anchor::FirstRecv { label: "preprocessed gates".into(), occ: 0 },
                    whitelist: wl(&INPUT_PHASE),
                    ot_group: false,
                });
            }
        }
    }
    Ok(out)
}

pub fn configs(tier: Tier) -> Vec<(usize, usize, usize, Vec<usize>, usize)> {
    // (n, corrupt, p_eval, p_out, circuit variant)
    let mut v = vec![];
    for corrupt in 0..2 {
        for p_eval in 0..2 {
            v.push((2, corrupt, p_eval, vec![0, 1], (corrupt + p_eval) % 2));
        }
    }
    let n3: Vec<(usize, usize)> = tier.pick(vec![(1, 0), (0, 0)], vec![(1, 0), (0, 0), (2, 0), (2, 1), (1, 1), (0, 2)]);
    for (c, e) in n3 {
        v.push((3, c, e, vec![0, 1, 2], c % 2));
    }
    v
}

pub fn run(tier: Tier, seed: u64) -> i32 {
    let ctx = Ctx::new("C03", tier, seed, "fault_enumeration");
    ctx.set_rule("systematic enumeration of a hand-derived must-detect table: every authenticated field of every online-phase message (wire-share bit / MAC bits / omission at every input register of the victim; every wire label: bit flips, random, omission; every garbled gate: the same byte offset flipped in all four rows at offsets first/tag/middle/last; the share bit garbled into a row via tap; output-wire share bit / MAC bits at every output register and recipient; evaluator's revealed value, label, omission at every output register; different masked inputs to different parties for n=3, incl. a 2200+-element broadcast vector) x corrupted role (garbler, evaluator) x n in {2,3}; oracle: the honest party that consumes the altered value returns Err and, after receiving it, starts no channel operation outside the round of that message (so the run never proceeds on the unverified value); a panic or Ok is a violation; a stall inside the round is undecided; non-trivial = table entry whose altered value reached the victim and was decided");
    ctx.assume("detection probability of the correct protocol is >= 1-2^-40 for every table row, independent of secrets");
    let mut all = vec![];
    let inputs_seed = seed as usize;
    for (i, (n, corrupt, p_eval, p_out, variant)) in configs(tier).into_iter().enumerate() {
        let code = inputs_seed.wrapping_mul(7).wrapping_add(i * 5 + 3);
        let inputs: Vec<Vec<bool>> = (0..n).map(|p| vec![code >> (2 * p) & 1 == 1, code >> (2 * p + 1) & 1 == 1]).collect();
        let base = MpcCase::simple(circ(n, variant), inputs, p_eval, p_out);
        let mac_bits: Vec<u32> = tier.pick(vec![0, 127], (0..128).collect());
        match entries(&base, corrupt, &mac_bits) {
            Ok(e) => all.extend(e),
            Err(e) => {
                ctx.infra(e);
                return ctx.finish();
            }
        }
    }
    // n = 3, more than 2048 input registers: the masked-input broadcast vector is long; equivocation at
    // the first and the last input of the corrupted (highest-index) party
    {
        let counts = [1100usize, 1100, 24];
        let mut insts = vec![];
        let mut r = 0u32;
        for (p, c) in counts.iter().enumerate() {
            for i in 0..*c {
                insts.push((r, GOp::Input { party: p as u32, input: i as u32 }));
                r += 1;
            }
        }
        insts.push((r, GOp::Xor(0, r - 1)));
        insts.push((r + 1, GOp::And(1, 1100)));
        let big = CircSpec { input_regs: counts.to_vec(), insts, max_reg_count: r as usize + 2, output_regs: vec![r, r + 1], and_ops: 1 };
        let inputs: Vec<Vec<bool>> = counts.iter().map(|c| (0..*c).map(|i| (i + seed as usize) % 3 == 0).collect()).collect();
        let base = MpcCase::simple(big, inputs, 0, vec![0, 1]);
        match entries(&base, 2, &[0]) {
            Ok(e) => {
                let eq: Vec<Entry> = e.into_iter().filter(|e| e.row.starts_with("masked inputs: different")).collect();
                let k = eq.len();
                all.extend(eq.into_iter().enumerate().filter(|(i, _)| *i < 2 || *i + 2 >= k).map(|(_, e)| e));
            }
            Err(e) => {
                ctx.infra(e);
                return ctx.finish();
            }
        }
    }
    ctx.extra("table_entries", json!(all.len()));
    enumerate(&ctx, &all, |e| test_entry("C03", e));
    ctx.exhaustive.store(!ctx.stopped(), std::sync::atomic::Ordering::Relaxed);
    ctx.finish()
}

pub fn replay(path: &str) -> i32 {
    crate::fw::replay_case::<Entry, _>("C03", path, 3, |e| test_entry("C03", e))
}
