//! Must-detect engine shared by C03 (online phase) and C04a (preprocessing).
use serde::{Deserialize, Serialize};
use serde_json::json;

use crate::adv::{Anchor, AttackCase, Detect, must_detect, panic_sig, run_attack};
use crate::fw::{CaseInfo, Fail, hash_of};
use crate::sim::exec::ExecCfg;

#[derive(Clone, Debug, Serialize, Deserialize)]
pub struct Entry {
    /// table row (used in the signature)
    pub row: String,
    pub attack: AttackCase,
    pub victims: Vec<usize>,
    pub anchor: Anchor,
    pub whitelist: Vec<String>,
    pub ot_group: bool,
}

pub fn wl(labels: &[&str]) -> Vec<String> {
    // every label may be followed by its echo round (verified broadcast, n>=3)
    let mut v: Vec<String> = vec![];
    for l in labels {
        v.push(l.to_string());
        v.push(format!("broadcast {l}"));
    }
    v
}

pub fn test_entry(prop: &str, e: &Entry) -> Result<CaseInfo, Fail> {
    let run = run_attack(&e.attack, &ExecCfg { record_probes: false, step_budget: 600_000, slow_sends: false });
    let mut undecided = false;
    let mut decided = false;
    let mut outcome_classes = vec![];
    for v in &e.victims {
        let d = must_detect(&run, *v, e.attack.corrupt, &e.anchor, &e.whitelist, e.ot_group);
        let (kind, detail) = match &d {
            Detect::Detected => {
                decided = true;
                outcome_classes.push("detected");
                continue;
            }
            Detect::Undecided(_) | Detect::NotConsumed => {
                if std::env::var("PVF_DEBUG").is_ok() {
                    eprintln!("undecided: row {:?} n={} corrupt={} victim={} {:?} outcomes {:?}", e.row, e.attack.base.n(), e.attack.corrupt, v, d, run.res.outcomes.iter().map(|o| o.class()).collect::<Vec<_>>());
                }
                undecided = true;
                outcome_classes.push("undecided");
                continue;
            }
            Detect::Accepted(s) => ("accepted", s.clone()),
            Detect::Progressed(s) => ("progressed", s.clone()),
            Detect::Panicked(s) => ("panicked", panic_sig(s)),
        };
        let sig = if kind == "panicked" { format!("{prop}|{}|panicked|{}", e.row, detail) } else { format!("{prop}|{}|{}", e.row, kind) };
        return Err(Fail::new(
            sig,
            format!(
                "row {:?}: victim {} (n={}, corrupt {}, p_eval {}) did not abort within the round: {} {}; faults {:?} taps {:?}",
                e.row,
                v,
                e.attack.base.n(),
                e.attack.corrupt,
                e.attack.base.p_eval,
                kind,
                detail,
                e.attack.faults,
                e.attack.taps
            ),
        ));
    }
    Ok(CaseInfo {
        nontrivial: decided.then(|| hash_of(&serde_json::to_string(&(&e.attack, &e.victims)).unwrap())),
        classes: vec![format!("row={}", e.row), format!("n={}", e.attack.base.n()), format!("result={}", outcome_classes.join("+"))],
        sample: Some(json!({"row": e.row, "n": e.attack.base.n(), "corrupt": e.attack.corrupt, "p_eval": e.attack.base.p_eval, "victims": e.victims, "faults": e.attack.faults, "taps": e.attack.taps, "whitelist": e.whitelist})),
        undecided: undecided && !decided,
        ..Default::default()
    })
}
