//! C15 - server core: cancel stops the run and notifies the output destination once.
use serde::{Deserialize, Serialize};
use serde_json::json;

use crate::checks::c13::configs;
use crate::fw::{CaseInfo, Ctx, Fail, Tier, hash_of};
use crate::srv::SrvConfig;
use crate::srv::explore::{Obs, Plan, When, explore_blocking};
use crate::srv::shard::{UnitResult, run_parent, run_worker, worker_id};

#[derive(Clone, Debug, Serialize, Deserialize)]
pub struct Case {
    pub cfg: SrvConfig,
    pub plan: Plan,
}

#[derive(Clone, Debug, Serialize, Deserialize)]
pub struct Unit {
    pub cfg: SrvConfig,
    pub script: Vec<usize>,
    pub target: usize,
}

fn when_name(w: &When) -> &'static str {
    match w {
        When::Step(_) => "quiescent-point",
        When::AfterAction(_) => "immediately-after-action",
        When::WhileCompiling => "while-compiling",
        When::AfterMsg(_) => "during-mpc",
        When::OutputInFlight => "while-result-is-being-delivered",
    }
}

pub fn test_case(c: &Case) -> Result<CaseInfo, Fail> {
    let obs: Obs = explore_blocking(&c.cfg, &c.plan);
    let Some((when, target)) = &c.plan.cancel else { return Ok(CaseInfo::default()) };
    let wn = when_name(when);
    if !obs.trigger_fired {
        return Ok(CaseInfo { classes: vec![format!("not-fired:{wn}")], ..Default::default() });
    }
    let state = obs.injected_state.clone().unwrap_or_else(|| "-".into());
    let Some(Some((res, at))) = &obs.cancel else {
        // cancel() never returned: the statement only speaks about a cancel that returned Ok
        return Ok(CaseInfo { classes: vec![format!("cancel-pending:{wn}")], undecided: true, ..Default::default() });
    };
    if res.is_err() {
        return Ok(CaseInfo { classes: vec![format!("cancel-err:{wn}")], sample: Some(json!({"when": when, "target": target, "cancel": res})), ..Default::default() });
    }
    // cancel returned Ok
    if let Some(p) = obs.actor_panicked.iter().position(|x| *x) {
        return Err(Fail::new(format!("C15|actor-panic|{wn}"), format!("cancel on party {target} ({wn}): state machine of party {p} panicked")));
    }
    if !obs.actor_finished[*target] {
        return Err(Fail::new(format!("C15|not-stopped|{wn}"), format!("cancel on party {target} ({wn}, state {state}) returned Ok but its state machine is still running")));
    }
    // was the policy known to the state machine when the cancel was processed?
    let scheduled_before = obs.target_scheduled_before;
    let outs: Vec<_> = obs.outputs.iter().filter(|o| o.0 == *target).collect();
    if c.cfg.outputs[*target] && scheduled_before {
        let want = c.cfg.expected();
        let ok = match outs.as_slice() {
            [(_, Err(e), _)] if e == "Cancelled" => true,
            [(_, Ok(l), _)] if *l == want => true,
            // an injected transport failure of the target's own constants exchange has already been reported
            [(_, Err(e), _)] if e == "SendConstsError" && c.plan.fail_rpc.is_some() => true,
            _ => false,
        };
        if !ok {
            return Err(Fail::new(
                format!("C15|notification|{wn}"),
                format!("cancel on party {target} ({wn}, state {state}) returned Ok; its output destination must receive exactly one notification (Cancelled or the result {want}) but received {:?}", outs.iter().map(|o| &o.1).collect::<Vec<_>>()),
            ));
        }
    }
    if let Some(o) = outs.iter().find(|o| o.2 > *at) {
        return Err(Fail::new(format!("C15|notified-after-cancel|{wn}"), format!("cancel on party {target} ({wn}) returned Ok at history index {at}, but {:?} was sent to its destination afterwards (index {})", o.1, o.2)));
    }
    if obs.permits[*target] != c.cfg.concurrency {
        return Err(Fail::new(format!("C15|permit|{wn}"), format!("cancel on party {target} ({wn}) returned Ok but its concurrency budget is {} of {}", obs.permits[*target], c.cfg.concurrency)));
    }
    Ok(CaseInfo {
        nontrivial: Some(hash_of(&serde_json::to_string(c).unwrap())),
        classes: vec![format!("when={wn}"), format!("state={state}"), format!("n={}", c.cfg.n()), format!("target_is_leader={}", *target == c.cfg.leader)],
        sample: Some(json!({"n": c.cfg.n(), "leader": c.cfg.leader, "target": target, "when": when, "state": state, "notifications": outs.iter().map(|o| &o.1).collect::<Vec<_>>(), "permits": obs.permits})),
        ..Default::default()
    })
}

fn run_unit(u: &Unit, emit: &mut dyn FnMut(UnitResult)) {
    let base = explore_blocking(&u.cfg, &Plan { script: u.script.clone(), ..Default::default() });
    let steps = base.branching.len();
    let mut whens: Vec<When> = vec![];
    for k in 0..=steps {
        whens.push(When::Step(k));
        if k < steps {
            whens.push(When::AfterAction(k));
        }
    }
    whens.push(When::WhileCompiling);
    whens.push(When::WhileCompiling);
    for k in [1usize, 3, 10, 25] {
        if k < base.msgs {
            whens.push(When::AfterMsg(k));
        }
    }
    if base.msgs > 2 {
        whens.push(When::AfterMsg(base.msgs - 1));
    }
    // two-step histories: a (rejected) duplicate run request at the target, then the cancel
    let mut combos = vec![];
    for k in [1usize, 10] {
        if k < base.msgs {
            combos.push(Plan { script: u.script.clone(), inject: Some((When::AfterMsg(k), u.target, crate::srv::explore::Stray::Run)), cancel: Some((When::AfterMsg(k), u.target)), ..Default::default() });
        }
    }
    // a destination that is not instantaneous: cancel while the target's notification is in flight
    combos.push(Plan { script: u.script.clone(), hold_outputs: true, cancel: Some((When::OutputInFlight, u.target)), ..Default::default() });
    // a failing constants exchange of the target, cancel at every later point
    let n = u.cfg.n();
    if u.cfg.prog.consts_from[u.target] {
        for to in (0..n).filter(|q| *q != u.target) {
            for k in 0..=steps {
                combos.push(Plan { script: u.script.clone(), fail_rpc: Some((crate::srv::RpcKind::Consts, u.target, to)), cancel: Some((When::Step(k), u.target)), ..Default::default() });
                if k < steps {
                    combos.push(Plan { script: u.script.clone(), fail_rpc: Some((crate::srv::RpcKind::Consts, u.target, to)), cancel: Some((When::AfterAction(k), u.target)), ..Default::default() });
                }
            }
        }
    }
    for plan in combos {
        let case = Case { cfg: u.cfg.clone(), plan };
        match test_case(&case) {
            Ok(i) => emit(UnitResult::Ok(i)),
            Err(f) => emit(UnitResult::Fail(f, serde_json::to_value(&case).unwrap())),
        }
    }
    for w in whens {
        let case = Case { cfg: u.cfg.clone(), plan: Plan { script: u.script.clone(), cancel: Some((w, u.target)), ..Default::default() } };
        match test_case(&case) {
            Ok(i) => emit(UnitResult::Ok(i)),
            Err(f) => emit(UnitResult::Fail(f, serde_json::to_value(&case).unwrap())),
        }
    }
}

pub fn units(tier: Tier, seed: u64) -> Vec<Unit> {
    let mut v = vec![];
    let mut cfgs: Vec<SrvConfig> = vec![];
    for c in 0..=2 {
        cfgs.extend(configs(2, c, seed + c as u64, true));
    }
    cfgs.extend(configs(3, 1, seed, tier == Tier::Thorough));
    if tier == Tier::Thorough {
        cfgs.extend(configs(3, 2, seed + 1, true));
        cfgs.extend(configs(3, 0, seed + 2, true));
    }
    for mut cfg in cfgs {
        // every party has a destination here: the notification rule is what is being checked
        let n = cfg.n();
        cfg.outputs = (0..n).map(|p| (seed as usize + p) % 4 != 3).collect();
        let mut scripts: Vec<Vec<usize>> = tier.pick(vec![vec![], vec![1, 1]], vec![vec![], vec![1, 1], vec![0, 1, 0, 1], vec![1, 0, 2], vec![0, 1], vec![1, 0, 1, 1], vec![0, 0, 1], vec![1, 2, 0, 1]]);
        if tier == Tier::Thorough {
            scripts.extend(crate::checks::c13::random_scripts(seed, 24));
        }
        for script in scripts {
            for target in 0..n {
                v.push(Unit { cfg: cfg.clone(), script: script.clone(), target });
            }
        }
    }
    v
}

pub fn run(tier: Tier, seed: u64) -> i32 {
    if let Some((k, of)) = worker_id() {
        return run_worker(units(tier, seed), k, of, run_unit);
    }
    let ctx = Ctx::new("C15", tier, seed, "fault_enumeration");
    ctx.set_rule("systematic enumeration: cancel on each party (leader and followers; n=2 with constants from 0/1/2 parties, n=3) (i) at every quiescent point of a session, (ii) immediately after every explorer action without waiting for quiescence, (iii) while the compile thread is alive (spin on the OS thread count after each action), (iv) after the k-th MPC message for k in {1,3,10,25,last} with the computation held, (v) after a duplicate run request that the executing target has just rejected, (vi) while the target's result notification is in flight to a destination that is not instantaneous, (vii) at every point after an injected failure of the target's own constants exchange; oracle, applied once cancel() returned Ok: the state machine has stopped; if the policy was known and names a destination, that destination received exactly one notification - Cancelled or the real result - and nothing after the return; the party's concurrency budget is complete; a cancel that returns an error or never returns is not judged (counted); non-trivial = cancel that fired and returned Ok; distinct by hash of the case");
    ctx.assume("single-threaded runtime with exact quiescence; the multi-threaded variant is not claimed");
    let n_units = units(tier, seed).len();
    ctx.extra("work_units", json!(n_units));
    run_parent(&ctx, "C15", n_units);
    ctx.finish()
}

pub fn replay(path: &str) -> i32 {
    crate::fw::replay_case::<Case, _>("C15", path, 4, test_case)
}
