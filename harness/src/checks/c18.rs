//! C18 - documented-invalid arguments are rejected up front without traffic or panic.
use serde::{Deserialize, Serialize};
use serde_json::json;

use crate::circ::{CircSpec, GOp};
use crate::fw::{CaseInfo, Ctx, Fail, Tier, enumerate, hash_of};
use crate::run::{Adversary, MpcCase, PartyArgs, run_mpc, run_mpc_ext, short};
use crate::sim::exec::{ExecCfg, Outcome};
use crate::sim::net::EvKind;

#[derive(Clone, Debug, Serialize, Deserialize)]
pub enum Case {
    /// one party is called with invalid arguments while the others are honest
    InvalidArg { base: MpcCase, party: usize, args: PartyArgs, what: String },
    /// all parties are called with the same invalid circuit (fails `validate`)
    InvalidCircuit { base: MpcCase, what: String },
    /// p_out with repeated / unsorted indices at every party
    RepeatedOut { base: MpcCase, p_out: Vec<usize> },
    /// circuit description whose counters disagree with its instructions (passes `validate`)
    Malformed { base: MpcCase, what: String },
    /// history: every party first runs the valid circuit, then the same circuit objects (same
    /// instruction buffers) are made invalid in place and passed to mpc again
    Reused { base: MpcCase, what: u8 },
}

fn base_circ(n: usize) -> CircSpec {
    // 2 inputs per party, two ANDs, a NOT
    let mut insts = vec![];
    let mut r = 0u32;
    for p in 0..n {
        for i in 0..2 {
            insts.push((r, GOp::Input { party: p as u32, input: i }));
            r += 1;
        }
    }
    insts.push((r, GOp::And(0, 2)));
    insts.push((r + 1, GOp::And(1, 3)));
    insts.push((r + 2, GOp::Xor(r, r + 1)));
    insts.push((r + 2, GOp::Not(r + 2)));
    CircSpec { input_regs: vec![2; n], insts, max_reg_count: r as usize + 3, output_regs: vec![r + 2, r], and_ops: 2 }
}

fn ops_of(events: &[crate::sim::net::Event], party: usize) -> usize {
    events.iter().filter(|e| e.party == party && matches!(e.kind, EvKind::SendStart | EvKind::RecvStart)).count()
}

pub fn test_case(c: &Case) -> Result<CaseInfo, Fail> {
    // every case runs twice: without any tracing subscriber and with one that enables every span and
    // event (as under verbose logging, where the field expressions of spans and events are evaluated)
    let plain = test_case_inner(c)?;
    crate::sim::exec::VERBOSE_TRACING.with(|v| v.set(true));
    let verbose = test_case_inner(c);
    crate::sim::exec::VERBOSE_TRACING.with(|v| v.set(false));
    verbose.map_err(|f| Fail::new(format!("{}|verbose-tracing", f.signature), format!("with every tracing span and event enabled: {}", f.msg)))?;
    Ok(CaseInfo { extra_runs: 1, ..plain })
}

fn test_case_inner(c: &Case) -> Result<CaseInfo, Fail> {
    let cfg = ExecCfg { record_probes: false, step_budget: 2_000_000, slow_sends: false };
    let mut classes = vec![];
    let desc;
    match c {
        Case::InvalidArg { base, party, args, what } => {
            let mut ov: Vec<Option<PartyArgs>> = vec![None; base.n()];
            ov[*party] = Some(args.clone());
            let run = run_mpc_ext(base, Adversary::default(), &cfg, Some(ov));
            let ops = ops_of(&run.res.events, *party);
            match &run.res.outcomes[*party] {
                Outcome::Err(_) if ops == 0 => {}
                Outcome::Err(e) => {
                    return Err(Fail::new(format!("C18|traffic-before-reject|{}", what.split('=').next().unwrap_or(what)), format!("{what}: mpc returned Err only after {ops} channel operations ({})", crate::adv::trunc(e, 120))));
                }
                Outcome::Panic(m) => return Err(Fail::new(format!("C18|panic|{}", what.split('=').next().unwrap_or(what)), format!("{what}: panic {m}"))),
                o => return Err(Fail::new(format!("C18|accepted|{}", what.split('=').next().unwrap_or(what)), format!("{what}: expected an up-front Err, got {} after {ops} channel operations", short(o)))),
            }
            for p in (0..base.n()).filter(|p| p != party) {
                if let Outcome::Panic(m) = &run.res.outcomes[p] {
                    return Err(Fail::new("C18|peer-panic", format!("{what}: honest peer {p} panicked: {m}")));
                }
            }
            classes.push(format!("invalid:{}", what.split('=').next().unwrap_or(what)));
            desc = json!({"what": what, "party": party, "args": args, "channel_ops_before_err": ops});
        }
        Case::InvalidCircuit { base, what } => {
            let run = run_mpc(base, Adversary::default(), &cfg);
            for p in 0..base.n() {
                let ops = ops_of(&run.res.events, p);
                match &run.res.outcomes[p] {
                    Outcome::Err(_) if ops == 0 => {}
                    Outcome::Panic(m) => return Err(Fail::new("C18|panic|invalid-circuit", format!("{what}: party {p} panicked: {m}"))),
                    o => return Err(Fail::new("C18|invalid-circuit-not-rejected", format!("{what}: party {p}: expected up-front Err, got {} after {ops} channel operations", short(o)))),
                }
            }
            classes.push("invalid-circuit".into());
            desc = json!({"invalid_circuit": what});
        }
        Case::RepeatedOut { base, p_out } => {
            let c2 = MpcCase { p_out: p_out.clone(), ..base.clone() };
            let run = run_mpc(&c2, Adversary::default(), &cfg);
            let all_rejected = (0..base.n()).all(|p| run.res.outcomes[p].is_err() && ops_of(&run.res.events, p) == 0);
            if !all_rejected {
                // must behave like the set
                let mut set = p_out.clone();
                set.sort();
                set.dedup();
                let exp = base.expected();
                for p in 0..base.n() {
                    let want = if set.contains(&p) { exp.clone() } else { vec![] };
                    match &run.res.outcomes[p] {
                        Outcome::Ok(v) if *v == want => {}
                        Outcome::Panic(m) => return Err(Fail::new("C18|panic|repeated-output-index", format!("p_out {p_out:?}: party {p} panicked: {m}"))),
                        o => return Err(Fail::new("C18|repeated-output-index", format!("p_out {p_out:?} is neither rejected up front nor treated as the set {set:?}: party {p} got {} (expected Ok({want:?}))", short(o)))),
                    }
                }
            }
            classes.push("repeated-p_out".into());
            desc = json!({"p_out": p_out, "rejected": all_rejected});
        }
        Case::Reused { base, what } => {
            use garble_lang::register_circuit::{Op, Reg, Xor};
            use std::sync::Arc;
            let n = base.n();
            let mut circuits: Vec<Arc<garble_lang::register_circuit::Circuit>> = (0..n).map(|_| Arc::new(base.circ.to_circuit())).collect();
            let run1 = crate::run::run_mpc_full(base, Adversary::default(), &cfg, None, Some(circuits.clone()));
            crate::run::check_honest_result(base, &run1.res).map_err(|e| Fail::new("C18|reused|first-run", e))?;
            drop(run1);
            let name = ["operand register out of range", "output register out of range", "operand read before set"][*what as usize % 3];
            for c in circuits.iter_mut() {
                let Some(c) = Arc::get_mut(c) else { return Err(Fail::new("INFRA", "circuit still shared after the first run")) };
                let big = Reg(c.max_reg_count as u32 + 5);
                match *what % 3 {
                    0 => {
                        let k = c.insts.len() - 1;
                        c.insts[k].op = Op::Xor(Xor(Reg(0), big));
                    }
                    1 => {
                        let k = c.output_regs.len() - 1;
                        c.output_regs[k] = big;
                    }
                    _ => {
                        // first gate after the inputs reads the last register, which is set later
                        let k = c.input_regs.iter().sum::<usize>();
                        let last = Reg(c.max_reg_count as u32 - 1);
                        c.insts[k].op = Op::Xor(Xor(last, last));
                    }
                }
            }
            let run2 = crate::run::run_mpc_full(base, Adversary::default(), &cfg, None, Some(circuits.clone()));
            for p in 0..n {
                let ops = ops_of(&run2.res.events, p);
                match &run2.res.outcomes[p] {
                    Outcome::Err(_) if ops == 0 => {}
                    Outcome::Panic(m) => return Err(Fail::new("C18|panic|reused-circuit", format!("{name} (after a valid run with the same circuit object): party {p} panicked: {m}"))),
                    o => return Err(Fail::new("C18|invalid-circuit-not-rejected|reused", format!("{name}, written into the circuit object that had just been run successfully: party {p}: expected up-front Err, got {} after {ops} channel operations", short(o)))),
                }
            }
            classes.push("reused-circuit-object".into());
            desc = json!({"reused_then_invalid": name});
        }
        Case::Malformed { base, what } => {
            let run = run_mpc(base, Adversary::default(), &cfg);
            for p in 0..base.n() {
                if let Outcome::Panic(m) = &run.res.outcomes[p] {
                    return Err(Fail::new(format!("C18|panic|malformed|{}", crate::adv::panic_sig(m)), format!("{what}: party {p} panicked: {m}")));
                }
            }
            classes.push("malformed-circuit".into());
            let oc: Vec<&str> = run.res.outcomes.iter().map(|o| o.class()).collect();
            desc = json!({"malformed": what, "outcomes": oc});
        }
    }
    Ok(CaseInfo { nontrivial: Some(hash_of(&serde_json::to_string(c).unwrap())), classes, sample: Some(desc), ..Default::default() })
}

pub fn cases(tier: Tier, seed: u64) -> Vec<Case> {
    let mut v = vec![];
    for n in if tier == Tier::Thorough { vec![2usize, 3, 4] } else { vec![2usize, 3] } {
        let circ = base_circ(n);
        let inputs: Vec<Vec<bool>> = (0..n).map(|p| vec![(seed as usize + p) % 2 == 0, p % 2 == 0]).collect();
        for p_eval in 0..n {
            let base = MpcCase::simple(circ.clone(), inputs.clone(), p_eval, (0..n).collect());
            for party in 0..n {
                let ok = PartyArgs { inputs: inputs[party].clone(), p_eval, p_own: party, p_out: (0..n).collect() };
                let mut add = |what: String, args: PartyArgs| v.push(Case::InvalidArg { base: base.clone(), party, args, what });
                // boundary, far out of range, and values that alias a valid index when truncated to 8 / 16 / 32 bits
                let mut bads = vec![n, n + 1, 1000, usize::MAX, u32::MAX as usize, 1 << 63];
                for w in [8u32, 16, 32, 40] {
                    for k in 0..n {
                        bads.push((1usize << w) + k);
                    }
                }
                if tier == Tier::Quick && !(party == 0 && p_eval == 0) {
                    bads.truncate(6);
                }
                for bad in bads {
                    add(format!("p_own={bad}"), PartyArgs { p_own: bad, ..ok.clone() });
                    add(format!("p_eval={bad}"), PartyArgs { p_eval: bad, ..ok.clone() });
                    add(format!("p_out_element={bad}"), PartyArgs { p_out: vec![0, bad], ..ok.clone() });
                    add(format!("p_out_only={bad}"), PartyArgs { p_out: vec![bad], ..ok.clone() });
                    // the invalid index at every position of sorted, unsorted and repeating lists
                    for tmpl in [vec![0usize], vec![0, 1], vec![1, 0], vec![0, 0], vec![n - 1, 0, n - 1]] {
                        for pos in 0..=tmpl.len() {
                            let mut l = tmpl.clone();
                            l.insert(pos, bad);
                            if l != vec![0, bad] {
                                add(format!("p_out_element={bad} at {pos} of {tmpl:?}"), PartyArgs { p_out: l, ..ok.clone() });
                            }
                        }
                    }
                }
                add("p_out_empty=[]".into(), PartyArgs { p_out: vec![], ..ok.clone() });
                for k in [0usize, 1, 3, 7] {
                    add(format!("inputs_len={k}"), PartyArgs { inputs: vec![true; k], ..ok.clone() });
                }
                if tier == Tier::Quick && party > 0 && p_eval > 0 {
                    break;
                }
            }
        }
        let base = MpcCase::simple(circ.clone(), inputs.clone(), 0, (0..n).collect());
        // circuits failing validate()
        let mut bad = |what: &str, f: &dyn Fn(&mut CircSpec)| {
            let mut c = circ.clone();
            f(&mut c);
            v.push(Case::InvalidCircuit { base: MpcCase { circ: c, ..base.clone() }, what: what.to_string() });
        };
        bad("no outputs", &|c| c.output_regs.clear());
        bad("output register out of range", &|c| c.output_regs.push(c.max_reg_count as u32));
        bad("operand register out of range", &|c| c.insts.push((0, GOp::Xor(0, c.max_reg_count as u32 + 5))));
        bad("operand read before set", &|c| {
            let r = c.max_reg_count as u32;
            c.max_reg_count += 1;
            c.insts.push((0, GOp::Not(r)));
        });
        bad("instruction output out of range", &|c| c.insts.push((c.max_reg_count as u32, GOp::Not(0))));
        bad("input register != position", &|c| c.insts[1].0 = 0);
        bad("all input counts zero", &|c| c.input_regs.iter_mut().for_each(|x| *x = 0));
        for p_eval in 0..n {
            for what in 0..3u8 {
                v.push(Case::Reused { base: MpcCase { p_eval, ..base.clone() }, what });
            }
        }
        // repeated / unsorted output sets
        let outs: Vec<Vec<usize>> = if n == 2 { vec![vec![1, 1], vec![1, 0, 1], vec![1, 0], vec![0, 0, 0]] } else { vec![vec![1, 1], vec![2, 0, 2], vec![2, 1, 0], vec![0, 0, 1]] };
        for p_out in outs {
            for p_eval in 0..n {
                v.push(Case::RepeatedOut { base: MpcCase { p_eval, ..base.clone() }, p_out: p_out.clone() });
            }
        }
        // malformed circuits that pass validate(): single and paired mutations
        let ni = 2 * n;
        let muts: Vec<(&str, Box<dyn Fn(&mut CircSpec)>)> = vec![
            ("and_ops too small", Box::new(|c: &mut CircSpec| c.and_ops = 1)),
            ("and_ops zero", Box::new(|c: &mut CircSpec| c.and_ops = 0)),
            ("and_ops too large", Box::new(|c: &mut CircSpec| c.and_ops = 5)),
            ("and_ops far too large", Box::new(|c: &mut CircSpec| c.and_ops = 3000)),
            (
                "Input after a gate",
                Box::new(move |c: &mut CircSpec| {
                    // an Input instruction at position p must have out == p: append gates until position == a free register
                    let pos = c.insts.len();
                    if pos < c.max_reg_count {
                        c.insts.push((pos as u32, GOp::Input { party: 0, input: 0 }));
                    } else {
                        c.max_reg_count = pos + 1;
                        c.insts.push((pos as u32, GOp::Input { party: 0, input: 0 }));
                    }
                }),
            ),
            ("surplus Input", Box::new(move |c: &mut CircSpec| c.insts.insert(ni, (ni as u32, GOp::Input { party: 0, input: 1 })))),
            ("Input.party out of range", Box::new(move |c: &mut CircSpec| c.insts[0].1 = GOp::Input { party: 9, input: 0 })),
            ("Input.input out of range", Box::new(move |c: &mut CircSpec| c.insts[1].1 = GOp::Input { party: 0, input: 7 })),
            ("fewer Input instructions than input_regs", Box::new(move |c: &mut CircSpec| c.input_regs[0] = 3)),
            ("more Input instructions than input_regs", Box::new(move |c: &mut CircSpec| c.input_regs[0] = 1)),
            ("max_reg_count larger than needed", Box::new(|c: &mut CircSpec| c.max_reg_count += 50)),
        ];
        for (i, (wa, fa)) in muts.iter().enumerate() {
            let mut c = circ.clone();
            fa(&mut c);
            let inputs_adj: Vec<Vec<bool>> = (0..n).map(|p| vec![true; c.input_regs[p]]).collect();
            v.push(Case::Malformed { base: MpcCase { circ: c.clone(), inputs: inputs_adj.clone(), ..base.clone() }, what: wa.to_string() });
            for (wb, fb) in muts.iter().skip(i + 1) {
                let mut c2 = c.clone();
                fb(&mut c2);
                let inputs_adj: Vec<Vec<bool>> = (0..n).map(|p| vec![true; c2.input_regs[p]]).collect();
                v.push(Case::Malformed { base: MpcCase { circ: c2, inputs: inputs_adj, ..base.clone() }, what: format!("{wa} + {wb}") });
            }
        }
    }
    v
}

pub fn run(tier: Tier, seed: u64) -> i32 {
    let ctx = Ctx::new("C18", tier, seed, "exploration");
    ctx.set_rule("systematic enumeration, n in {2,3}, every evaluator choice: one argument invalid at a time (p_own, p_eval, p_out element at boundary n, n+1, far out of range and at 2^w + k for w in {8,16,32,40} and every valid k [aliases a valid index when truncated] at every position of sorted / unsorted / repeating lists, empty p_out, input length 0/1/3/7 instead of 2) at one party while the others are honest - oracle: that party returns Err with zero channel operation attempts (starts are recorded by the network) and nobody panics; circuits failing validation at all parties - Err with zero attempts, also when the invalid description is written into circuit objects that the same parties have just run successfully (history of two calls); p_out with repeated / unsorted indices - either rejected that way or every party behaves as for the deduplicated set (clear-text result); circuit descriptions that pass validation but whose counters disagree with their instructions (and_ops, misplaced / surplus Input, Input.party / Input.input out of range, input_regs vs instructions, oversized max_reg_count; single and all paired mutations) - no party panics; every case is executed without a tracing subscriber and under one that enables every span and event; distinct by hash of the case");
    let all = cases(tier, seed);
    ctx.extra("enumerated_cases", json!(all.len()));
    // the two-call histories look at state that survives between calls in the process, so they run
    // alone on one thread, before the rest runs in parallel
    let (serial, parallel): (Vec<Case>, Vec<Case>) = all.into_iter().partition(|c| matches!(c, Case::Reused { .. }));
    crate::fw::enumerate_with(&ctx, &serial, test_case, 1);
    if !ctx.stopped() {
        enumerate(&ctx, &parallel, test_case);
    }
    ctx.exhaustive.store(!ctx.stopped(), std::sync::atomic::Ordering::Relaxed);
    ctx.finish()
}

pub fn replay(path: &str) -> i32 {
    crate::fw::replay_case::<Case, _>("C18", path, 2, test_case)
}
