//! C06 - revealed input bits are hidden by a fresh, unbiased, private mask.
use std::collections::HashSet;
use std::sync::Mutex;

use serde::{Deserialize, Serialize};
use serde_json::json;

use crate::circ::{CircSpec, GOp};
use crate::fw::{CaseInfo, Ctx, Fail, Tier, enumerate, hash_of};
use crate::run::{Adversary, MpcCase, check_honest_result, run_mpc};
use crate::sim::exec::{ExecCfg, RunResult};
use crate::sim::sched::Mix;
use crate::trace::decode;
use crate::wire::Val;

/// input bits per party in the balance configuration: the wire indices of all parties together
/// cover more than two 128-bit words of the preprocessing bit strings
pub const BALANCE_BITS: usize = 136;

/// `bits` input bits per party, one XOR gate, output = xor of the first bits
pub fn wide_circ(n: usize, bits: usize) -> CircSpec {
    let mut insts = vec![];
    let mut r = 0u32;
    for p in 0..n {
        for i in 0..bits {
            insts.push((r, GOp::Input { party: p as u32, input: i as u32 }));
            r += 1;
        }
    }
    insts.push((r, GOp::Xor(0, bits as u32)));
    CircSpec { input_regs: vec![bits; n], insts, max_reg_count: r as usize + 1, output_regs: vec![r], and_ops: 0 }
}

/// From the transcript only: for party p and each of its input wires w,
/// b_w = masked_input[w] XOR (XOR over j != p of the share j sent to p) = x_w XOR r_p[w].
pub fn revealed_bits(case: &MpcCase, res: &RunResult<Vec<bool>>, p: usize) -> Result<Vec<bool>, String> {
    let n = case.n();
    let bits = case.circ.input_regs[p];
    let first: usize = case.circ.input_regs[..p].iter().sum();
    let q = (p + 1) % n;
    let masked = res.msgs.iter().find(|m| m.from == p && m.to == q && m.label == "masked inputs").ok_or("no masked inputs message")?;
    let Some(Val::Seq(mv)) = decode(masked) else { return Err("masked inputs do not decode".into()) };
    let mut out = vec![];
    for w in first..first + bits {
        let Val::Opt(Some(b)) = &mv[w] else { return Err(format!("masked input {w} missing")) };
        let Val::Bool(mut v) = **b else { return Err("bad masked input".into()) };
        for j in (0..n).filter(|j| *j != p) {
            let ws = res.msgs.iter().find(|m| m.from == j && m.to == p && m.label == "wire shares").ok_or("no wire shares message")?;
            let Some(Val::Seq(sv)) = decode(ws) else { return Err("wire shares do not decode".into()) };
            let Val::Opt(Some(t)) = &sv[w] else { return Err(format!("wire share {w} of party {j} missing")) };
            let Val::Tup(t) = &**t else { return Err("bad wire share".into()) };
            let Val::Bool(s) = t[0] else { return Err("bad wire share".into()) };
            v ^= s;
        }
        out.push(v & 1 == 1);
    }
    Ok(out)
}

/// like `wide_circ` with a different number of input bits per party
pub fn wide_circ_bits(bits: &[usize]) -> CircSpec {
    let mut insts = vec![];
    let mut r = 0u32;
    for (p, b) in bits.iter().enumerate() {
        for i in 0..*b {
            insts.push((r, GOp::Input { party: p as u32, input: i as u32 }));
            r += 1;
        }
    }
    insts.push((r, GOp::Xor(0, bits[0] as u32)));
    CircSpec { input_regs: bits.to_vec(), insts, max_reg_count: r as usize + 1, output_regs: vec![r], and_ops: 0 }
}

pub const DISCLOSURE_RUNS: usize = 64;

/// Over 64 executions with random inputs: no bit position of anything party p sends equals (or is
/// the complement of) p's own mask share of one of its input wires in every execution.
fn disclosure(bits: &[usize], seed: u64, sh: &Shared) -> Result<CaseInfo, Fail> {
    let n = bits.len();
    let cfg = ExecCfg { record_probes: true, ..Default::default() };
    let circ = wide_circ_bits(bits);
    // per party: own mask share vectors over the runs, and the bit columns of its traffic
    let mut own: Vec<Vec<u64>> = bits.iter().map(|b| vec![0u64; *b]).collect();
    type Key = (usize, String, usize, usize);
    let mut cols: std::collections::BTreeMap<Key, Option<Vec<u64>>> = Default::default();
    let mut m = Mix(seed);
    for k in 0..DISCLOSURE_RUNS {
        let inputs: Vec<Vec<bool>> = bits.iter().map(|b| (0..*b).map(|_| m.next() & 1 == 1).collect()).collect();
        let case = MpcCase::simple(circ.clone(), inputs.clone(), 0, (0..n).collect());
        let run = run_mpc(&case, Adversary::default(), &cfg);
        check_honest_result(&case, &run.res).map_err(|e| Fail::new("C06|wrong-result", e))?;
        note_deltas(&run.res, sh)?;
        for p in 0..n {
            let b = revealed_bits(&case, &run.res, p).map_err(|e| Fail::new("INFRA", e))?;
            for (w, (x, y)) in b.iter().zip(inputs[p].iter()).enumerate() {
                own[p][w] |= ((*x ^ *y) as u64) << k;
            }
        }
        for msg in &run.res.msgs {
            let key = (msg.from, msg.label.clone(), msg.label_occ, msg.to);
            let nbits = msg.wire.len() * 8;
            let e = cols.entry(key).or_insert_with(|| Some(vec![0u64; nbits]));
            match e {
                Some(v) if v.len() == nbits => {
                    for (i, byte) in msg.wire.iter().enumerate() {
                        let mut bb = *byte;
                        while bb != 0 {
                            let t = bb.trailing_zeros() as usize;
                            v[i * 8 + t] |= 1u64 << k;
                            bb &= bb - 1;
                        }
                    }
                }
                // shape differs between executions: this message is not judged
                _ => *e = None,
            }
        }
    }
    let mut positions = 0usize;
    for p in 0..n {
        let mut look: std::collections::HashMap<u64, usize> = Default::default();
        for (w, r) in own[p].iter().enumerate() {
            look.insert(*r, w);
            look.insert(!*r, w);
        }
        for ((from, label, occ, to), v) in cols.iter().filter(|(k, _)| k.0 == p) {
            let Some(v) = v else { continue };
            positions += v.len();
            for (j, t) in v.iter().enumerate() {
                if let Some(w) = look.get(t) {
                    return Err(Fail::new(
                        format!("C06|own-mask-share-disclosed|{label}"),
                        format!("in {DISCLOSURE_RUNS} of {DISCLOSURE_RUNS} executions with random inputs, bit {} of byte {} of the {label:?} message #{occ} that party {from} sends to party {to} equals (or complements) the party's own mask share of its input wire {w} (input sizes {bits:?})", j % 8, j / 8),
                    ));
                }
            }
        }
    }
    Ok(CaseInfo {
        nontrivial: Some(hash_of(&(bits.to_vec(), seed, 99u8))),
        extra_runs: DISCLOSURE_RUNS as u64 - 1,
        classes: vec![format!("disclosure:n={n}")],
        sample: Some(json!({"disclosure": {"input_bits": bits, "runs": DISCLOSURE_RUNS, "traffic_bit_positions_compared": positions}})),
        ..Default::default()
    })
}

/// The curious OT-extension sender: with the base-OT seeds it legitimately holds (probe) it tries to
/// cancel the PRG streams in the rows of the receiver's extension matrix.  If `row ^ G(a) ^ G(b)`
/// comes out the same for two different rows (any seeds a, b it knows), that value is the receiver's
/// choice vector - i.e. the receiver's own mask shares.
fn curious_ot_sender(n: usize, seed: u64, sh: &Shared) -> Result<CaseInfo, Fail> {
    use polytune::verif as pv;
    let cfg = ExecCfg { record_probes: true, ..Default::default() };
    let mut m = Mix(seed);
    let bits = 3usize;
    let inputs: Vec<Vec<bool>> = (0..n).map(|_| (0..bits).map(|_| m.next() & 1 == 1).collect()).collect();
    let case = MpcCase::simple(wide_circ(n, bits), inputs, (seed % n as u64) as usize, (0..n).collect());
    let run = run_mpc(&case, Adversary::default(), &cfg);
    check_honest_result(&case, &run.res).map_err(|e| Fail::new("C06|wrong-result", e))?;
    note_deltas(&run.res, sh)?;
    let mut tried = 0usize;
    let mut occ: std::collections::HashMap<(usize, usize), usize> = Default::default();
    for pr in run.res.probes.iter().filter(|p| p.site == "alsz_sender_seeds") {
        let (sender, receiver) = (pr.party, pr.data[0] as usize);
        let k = {
            let e = occ.entry((sender, receiver)).or_insert(0);
            *e += 1;
            *e - 1
        };
        let Some(msg) = run.res.msgs.iter().find(|x| x.from == receiver && x.to == sender && x.label == "ALSZ_OT_setup" && x.label_occ == k) else { continue };
        let Some(Val::Seq(rows)) = decode(msg) else { continue };
        let rows: Vec<&Vec<u8>> = rows.iter().filter_map(|r| if let Val::Bytes(b) = r { Some(b) } else { None }).collect();
        let Some(row_len) = rows.first().map(|r| r.len()) else { continue };
        if row_len == 0 || rows.iter().any(|r| r.len() != row_len) {
            continue;
        }
        let w = row_len.min(16);
        let seeds: Vec<[u8; 16]> = pr.data[1..].chunks_exact(2).map(|c| {
            let mut b = [0u8; 16];
            b[..8].copy_from_slice(&c[0].to_le_bytes());
            b[8..].copy_from_slice(&c[1].to_le_bytes());
            b
        }).collect();
        let streams: Vec<Vec<u8>> = seeds.iter().map(|s| pv::aes_rng_fill(*s, w)).collect();
        let mut seen: std::collections::HashMap<Vec<u8>, usize> = Default::default();
        for (j, row) in rows.iter().enumerate() {
            for a in 0..streams.len() {
                for b in a + 1..streams.len() {
                    let cand: Vec<u8> = (0..w).map(|i| row[i] ^ streams[a][i] ^ streams[b][i]).collect();
                    tried += 1;
                    match seen.get(&cand) {
                        Some(j0) if *j0 != j => {
                            return Err(Fail::new(
                                "C06|ot-choice-bits-recoverable",
                                format!("n={n}: party {sender}, as sender of OT extension #{k} towards party {receiver}, cancels the PRG streams of rows {j0} and {j} of the receiver's extension matrix with base-OT seeds it holds (seeds {a} and {b} for row {j}) and obtains the same value twice: the receiver's choice bits, i.e. its own mask shares, are disclosed"),
                            ));
                        }
                        Some(_) => {}
                        None => {
                            seen.insert(cand, j);
                        }
                    }
                }
            }
        }
    }
    Ok(CaseInfo {
        nontrivial: (tried > 0).then(|| hash_of(&(n, seed, 1234u16))),
        classes: vec![if tried > 0 { format!("curious-ot-sender:n={n}") } else { "curious-ot-sender:no-probe".into() }],
        sample: Some(json!({"curious_ot_sender": {"n": n, "candidates_tried": tried}})),
        undecided: tried == 0,
        ..Default::default()
    })
}

#[derive(Clone, Debug, Serialize, Deserialize)]
pub enum Case {
    /// decode attempt of a curious OT-extension sender on one execution
    CuriousOtSender { n: usize, seed: u64 },
    /// own-share disclosure test over 64 executions of one circuit shape
    Disclosure { bits: Vec<usize>, seed: u64 },
    /// linear leakage test on one execution
    Linear { seed: u64 },
    /// N runs with every input bit = value; counts ones per (party, wire)
    Balance { n: usize, value: bool, runs: usize, chunk: usize },
    Canary { n: usize, seed: u64 },
}

struct Shared {
    deltas: Mutex<HashSet<u128>>,
    delta_count: Mutex<usize>,
    masks: Mutex<HashSet<u128>>,
    mask_count: Mutex<usize>,
    /// (n, value, party, wire) -> ones
    counts: Mutex<std::collections::BTreeMap<(usize, bool, usize, usize), (u64, u64)>>,
}

fn bit_search(hay: &[u8], pat: u128, msb_first: bool) -> Option<usize> {
    // sliding 128-bit window over the bit stream
    let mut win: u128 = 0;
    let nbits = hay.len() * 8;
    for i in 0..nbits {
        let byte = hay[i / 8];
        let bit = if msb_first { byte >> (7 - i % 8) & 1 } else { byte >> (i % 8) & 1 };
        win = (win << 1) | bit as u128;
        if i >= 127 && (win == pat || win == !pat) {
            return Some(i - 127);
        }
    }
    None
}

fn stride_search(hay: &[u8], bits: &[bool]) -> Option<(usize, usize)> {
    for stride in 1..=40usize {
        if hay.len() < (bits.len() - 1) * stride + 1 {
            continue;
        }
        for off in 0..=hay.len() - ((bits.len() - 1) * stride + 1) {
            let mut ok_plain = true;
            let mut ok_neg = true;
            for (i, b) in bits.iter().enumerate() {
                let v = hay[off + i * stride];
                if v > 1 {
                    ok_plain = false;
                    ok_neg = false;
                    break;
                }
                if (v == 1) != *b {
                    ok_plain = false;
                }
                if (v == 1) == *b {
                    ok_neg = false;
                }
                if !ok_plain && !ok_neg {
                    break;
                }
            }
            if ok_plain || ok_neg {
                return Some((off, stride));
            }
        }
    }
    None
}

fn test_case(c: &Case, sh: &Shared) -> Result<CaseInfo, Fail> {
    let cfg = ExecCfg { record_probes: true, ..Default::default() };
    match c {
        Case::Disclosure { bits, seed } => disclosure(bits, *seed, sh),
        Case::CuriousOtSender { n, seed } => curious_ot_sender(*n, *seed, sh),
        Case::Balance { n, value, runs, .. } => {
            let case = MpcCase::simple(wide_circ(*n, BALANCE_BITS), vec![vec![*value; BALANCE_BITS]; *n], 0, vec![0]);
            for _ in 0..*runs {
                let run = run_mpc(&case, Adversary::default(), &cfg);
                check_honest_result(&case, &run.res).map_err(|e| Fail::new("C06|wrong-result", e))?;
                note_deltas(&run.res, sh)?;
                let mut counts = sh.counts.lock().unwrap();
                for p in 0..*n {
                    let b = revealed_bits(&case, &run.res, p).map_err(|e| Fail::new("INFRA", e))?;
                    for (w, bit) in b.iter().enumerate() {
                        let e = counts.entry((*n, *value, p, w)).or_insert((0, 0));
                        e.0 += *bit as u64;
                        e.1 += 1;
                    }
                }
            }
            Ok(CaseInfo { extra_runs: *runs as u64 - 1, classes: vec![format!("balance:n={n}")], ..Default::default() })
        }
        Case::Linear { seed } => match crate::checks::c06lin::test_once(*seed) {
            Ok(d) => {
                let stale = d.starts_with("model of the public coins is stale");
                Ok(CaseInfo { nontrivial: (!stale).then(|| hash_of(&(*seed, 77u8))), classes: vec![if stale { "linear-leakage:not-judged".into() } else { "linear-leakage".into() }], sample: Some(json!({"linear_leakage_test": d})), undecided: stale, ..Default::default() })
            }
            Err(f) => Err(f),
        },
        Case::Canary { n, seed } => {
            let mut m = Mix(*seed);
            let inputs: Vec<Vec<bool>> = (0..*n).map(|_| (0..128).map(|_| m.next() & 1 == 1).collect()).collect();
            let case = MpcCase::simple(wide_circ(*n, 128), inputs.clone(), (*seed % *n as u64) as usize, (0..*n).collect());
            let run = run_mpc(&case, Adversary::default(), &cfg);
            check_honest_result(&case, &run.res).map_err(|e| Fail::new("C06|wrong-result", e))?;
            note_deltas(&run.res, sh)?;
            for p in 0..*n {
                let pat = inputs[p].iter().fold(0u128, |acc, b| (acc << 1) | *b as u128);
                for msg in run.res.msgs.iter().filter(|x| x.from == p) {
                    for msb in [false, true] {
                        if let Some(off) = bit_search(&msg.wire, pat, msb) {
                            return Err(Fail::new("C06|plain-input-in-traffic", format!("the 128 plain input bits of party {p} (or their complement) appear as a packed bit stream in its {:?} message at bit offset {off}", msg.label)));
                        }
                        // reversed wire order
                        let rev = inputs[p].iter().rev().fold(0u128, |acc, b| (acc << 1) | *b as u128);
                        if let Some(off) = bit_search(&msg.wire, rev, msb) {
                            return Err(Fail::new("C06|plain-input-in-traffic", format!("the 128 plain input bits of party {p} (reversed) appear as a packed bit stream in its {:?} message at bit offset {off}", msg.label)));
                        }
                    }
                    if let Some((off, stride)) = stride_search(&msg.wire, &inputs[p]) {
                        return Err(Fail::new("C06|plain-input-in-traffic", format!("the 128 plain input bits of party {p} (or their complement) appear as 0/1 bytes at offset {off} stride {stride} of its {:?} message", msg.label)));
                    }
                }
                // the party's own mask shares of its input wires are never sent: the only share messages
                // it sends after input processing carry entries for output registers
                let outs: std::collections::BTreeSet<usize> = case.circ.output_regs.iter().map(|r| *r as usize).collect();
                for msg in run.res.msgs.iter().filter(|x| x.from == p && x.label == "output wire shares") {
                    if let Some(v) = decode(msg) {
                        if let Some(w) = crate::trace::some_positions(&v).into_iter().find(|w| !outs.contains(w)) {
                            return Err(Fail::new("C06|own-mask-share-disclosed", format!("party {p} sends its own mask share of register {w} (not an output register) to party {} in {:?}", msg.to, msg.label)));
                        }
                    }
                }
                // mask vector r_p = revealed XOR input, must never repeat
                let b = revealed_bits(&case, &run.res, p).map_err(|e| Fail::new("INFRA", e))?;
                let r = b.iter().zip(inputs[p].iter()).fold(0u128, |acc, (x, y)| (acc << 1) | (*x ^ *y) as u128);
                *sh.mask_count.lock().unwrap() += 1;
                if !sh.masks.lock().unwrap().insert(r) {
                    return Err(Fail::new("C06|mask-vector-reused", format!("the 128-bit input mask vector {r:032x} of party {p} was already used by another party or execution")));
                }
            }
            Ok(CaseInfo { nontrivial: Some(hash_of(&(*seed, *n))), classes: vec![format!("canary:n={n}")], sample: Some(json!({"canary": {"n": n, "seed": seed, "messages_scanned": run.res.msgs.len()}})), ..Default::default() })
        }
    }
}

fn note_deltas(res: &RunResult<Vec<bool>>, sh: &Shared) -> Result<(), Fail> {
    for p in res.probes.iter().filter(|p| p.site == "delta") {
        *sh.delta_count.lock().unwrap() += 1;
        if !sh.deltas.lock().unwrap().insert(p.val) {
            return Err(Fail::new("C06|global-key-reused", format!("global key {:032x} of party {} was already used by another party or execution", p.val, p.party)));
        }
    }
    Ok(())
}

pub fn run(tier: Tier, seed: u64) -> i32 {
    let ctx = Ctx::new("C06", tier, seed, "exploration");
    let big_n = tier.pick(400usize, 4000);
    ctx.set_rule(&format!("repeated executions (the engine's own coins are the random variable): (i) balance - n in {{2,3}}, 136 input bits per party (wire indices 0..407, i.e. every position of the 64/128-bit words in which the preprocessing bit strings are handled), every input fixed to 0 for N={big_n} runs and to 1 for N runs; from the transcript only, b = masked_input[w] XOR (shares the others sent to the owner) = x_w XOR r_P[w]; per (n, party, wire, value) cell the number of ones must lie within 6.5 sigma of N/2 (two-sided tail 8e-11 per cell, 1360 cells => < 1.1e-7 per run); (ii) canary - 128 random input bits per party: neither they nor their complement occur in any message the party sends, as packed bit stream (both bit orders, both wire orders, every bit offset) or as 0/1 bytes at any offset and stride 1..40; (iii) no own mask share of a non-output register in the share messages of the output phase; (iii') own-share disclosure over 64 executions with random inputs per circuit shape (input vectors of 1..2100 bits, also crossing the 1000-share preprocessing batch): no bit position of any message the party sends equals or complements its own mask share of an input wire in all 64 executions (chance 2^-63 per position and wire); (iii'') curious OT-extension sender: with the base-OT seeds it holds (probe) it XORs every pair of expanded seeds onto every row of the receiver's extension matrix; the same value from two different rows would be the receiver's choice vector (its mask shares); (iv) linear leakage test: the KOS check value, aBit test bits and opened aShare bits of a party (with the public coins recomputed from the openings on the wire) must not determine its private bit string under the hypothesis of constant blinding bits; (v) uniqueness of every global key (probe) and every 128-bit mask vector over all parties and executions. non-trivial = a balance cell with N complete runs / a canary execution; evaluations counts engine executions"));
    ctx.assume("statistical: detects a constant or grossly biased mask, reuse and plain leakage; not cryptographic weakness of the generator");
    let sh = Shared { deltas: Default::default(), delta_count: Default::default(), masks: Default::default(), mask_count: Default::default(), counts: Default::default() };
    let chunk = 25;
    let mut cases = vec![];
    for n in [2usize, 3] {
        for value in [false, true] {
            for k in 0..big_n / chunk {
                cases.push(Case::Balance { n, value, runs: chunk, chunk: k });
            }
        }
    }
    for k in 0..tier.pick(12u64, 100) {
        cases.push(Case::Canary { n: 2 + (k % 2) as usize, seed: seed.wrapping_mul(1000).wrapping_add(k) });
    }
    // input vectors that cross the 1000-share batch boundary of the preprocessing, small ones, n=3
    let shapes: Vec<Vec<usize>> = tier.pick(vec![vec![1100, 8], vec![600, 600], vec![136, 136, 136], vec![3, 2]], vec![vec![1100, 8], vec![8, 1100], vec![600, 600], vec![2100, 30], vec![136, 136, 136], vec![700, 400, 300], vec![3, 2], vec![1, 1, 1, 1]]);
    for (k, b) in shapes.into_iter().enumerate() {
        cases.insert(k * 3, Case::Disclosure { bits: b, seed: seed.wrapping_mul(31).wrapping_add(k as u64) });
    }
    for k in 0..tier.pick(2u64, 12) {
        cases.push(Case::CuriousOtSender { n: 2 + (k % 2) as usize, seed: seed.wrapping_mul(53).wrapping_add(k) });
    }
    for k in 0..tier.pick(8u64, 64) {
        cases.push(Case::Linear { seed: seed.wrapping_mul(7777).wrapping_add(k * 131) });
    }
    enumerate(&ctx, &cases, |c| match test_case(c, &sh) {
        Err(f) if f.signature == "INFRA" => {
            ctx.infra(f.msg);
            Ok(CaseInfo::default())
        }
        r => r,
    });
    if !ctx.stopped() {
        // balance test
        let counts = sh.counts.lock().unwrap().clone();
        let mut worst = 0.0f64;
        let mut cells = 0;
        for ((n, value, p, w), (ones, total)) in &counts {
            cells += 1;
            let nn = *total as f64;
            let z = (*ones as f64 - nn / 2.0) / (nn.sqrt() / 2.0);
            worst = worst.max(z.abs());
            if *total as usize == big_n {
                ctx.nontrivial.lock().unwrap().insert(hash_of(&(n, value, p, w)));
            }
            if z.abs() > 6.5 {
                ctx.report_violation(
                    Fail::new("C06|mask-biased", format!("n={n} party {p} input wire {w} value {}: revealed-bit XOR other shares was 1 in {ones} of {total} executions (z = {z:.1}); the party's own mask share is not a fresh uniform bit", *value as u8)),
                    json!({"balance": {"n": n, "party": p, "wire": w, "value": value, "ones": ones, "total": total}}),
                );
                break;
            }
        }
        ctx.extra("balance_cells", json!(cells));
        ctx.extra("balance_worst_abs_z", json!(worst));
        ctx.extra("runs_per_cell", json!(big_n));
        ctx.extra("distinct_global_keys", json!(*sh.delta_count.lock().unwrap()));
        ctx.extra("distinct_mask_vectors", json!(*sh.mask_count.lock().unwrap()));
        ctx.samples.lock().unwrap().push(json!({"balance_cell_example": counts.iter().next().map(|(k, v)| json!({"n": k.0, "value": k.1, "party": k.2, "wire": k.3, "ones": v.0, "runs": v.1}))}));
    }
    ctx.finish()
}

pub fn replay(path: &str) -> i32 {
    // statistical / cross-run findings are replayed by re-running the quick tier
    let _ = path;
    run(Tier::Quick, 1)
}
