//! C01 - honest execution computes exactly the circuit, for every role assignment.
use serde_json::json;

use crate::circ::CircParams;
use crate::fw::{CaseInfo, Ctx, Fail, Tier, hash_of, prop_search};
use crate::gens::{CaseParams, gen_case};
use crate::run::{Adversary, MpcCase, check_honest_result, run_mpc};
use crate::sim::exec::ExecCfg;

pub fn describe(case: &MpcCase) -> serde_json::Value {
    let f = case.circ.features();
    json!({
        "n": case.n(), "p_eval": case.p_eval, "p_out": case.p_out, "tmp": case.tmp, "cap": case.cap,
        "sched": case.sched.kind(), "ands": f.ands, "insts": case.circ.insts.len(), "max_reg_count": case.circ.max_reg_count,
        "inputs": case.inputs, "outputs": case.circ.output_regs,
        "insts_head": case.circ.insts.iter().take(12).collect::<Vec<_>>(),
    })
}

pub fn classes(case: &MpcCase) -> Vec<String> {
    let f = case.circ.features();
    let mut c = vec![format!("n={}", case.n())];
    if case.p_eval != 0 {
        c.push("p_eval!=0".into());
    }
    if !case.p_out.contains(&case.p_eval) {
        c.push("eval_not_in_p_out".into());
    }
    if f.ands == 0 {
        c.push("no_and".into());
    } else if f.ands > 1000 {
        c.push("multi_batch".into());
    }
    if case.circ.max_reg_count > 65_536 {
        c.push(">64Ki registers".into());
    }
    if case.circ.output_regs.iter().collect::<std::collections::BTreeSet<_>>().len() > 64 {
        c.push(">64 unique outputs".into());
    }
    if f.ands > 9000 {
        c.push("batch=ceil(ands/9)".into());
    }
    if f.reuse {
        c.push("register_reuse".into());
    }
    if f.dup_out {
        c.push("dup_outputs".into());
    }
    if f.out_is_input {
        c.push("output_is_input".into());
    }
    if f.zero_input_party {
        c.push("zero_input_party".into());
    }
    if f.same_operand {
        c.push("x_op_x".into());
    }
    if f.nots > 0 {
        c.push("has_not".into());
    }
    let t = case.tmp.iter().filter(|t| **t).count();
    if t > 0 && t < case.n() {
        c.push("mixed_tmp_dir".into());
    } else if t == case.n() {
        c.push("all_tmp_dir".into());
    }
    c.push(format!("cap={}", case.cap));
    c.push(format!("sched={}", case.sched.kind()));
    c
}

pub fn test_case(case: &MpcCase) -> Result<CaseInfo, Fail> {
    // one case in four (decided by the case itself) runs with every tracing span and event enabled
    let verbose = case.circ.insts.len() <= 60 && hash_of(&serde_json::to_string(case).unwrap()) % 4 == 0;
    crate::sim::exec::VERBOSE_TRACING.with(|v| v.set(verbose));
    let r = test_case_inner(case);
    crate::sim::exec::VERBOSE_TRACING.with(|v| v.set(false));
    r.map(|mut i| {
        if verbose {
            i.classes.push("verbose_tracing".into());
        }
        i
    })
}

fn test_case_inner(case: &MpcCase) -> Result<CaseInfo, Fail> {
    let run = run_mpc(case, Adversary::default(), &ExecCfg { record_probes: false, ..Default::default() });
    if run.res.outcomes.iter().any(|o| matches!(o, crate::sim::exec::Outcome::Budget)) {
        return Ok(CaseInfo { undecided: true, ..Default::default() });
    }
    check_honest_result(case, &run.res).map_err(|e| Fail::new("C01|wrong-result", e))?;
    if run.tmp_left.iter().any(|l| *l != 0) {
        return Err(Fail::new("C01|tmp-file-left", format!("files left in tmp dirs: {:?}", run.tmp_left)));
    }
    let f = case.circ.features();
    let nontrivial = f.ands >= 1 || case.p_eval != 0 || !case.p_out.contains(&case.p_eval);
    Ok(CaseInfo {
        nontrivial: nontrivial.then(|| hash_of(&serde_json::to_string(case).unwrap())),
        classes: classes(case),
        sample: Some(describe(case)),
        ..Default::default()
    })
}

pub fn run(tier: Tier, seed: u64) -> i32 {
    let ctx = Ctx::new("C01", tier, seed, "exploration");
    ctx.set_rule("proptest: by-construction register circuits (reuse, NOT chains, x op x, outputs=inputs, dup outputs, zero-input parties; size classes incl. AND counts around the 1000-gate batch boundary and around 3100 (bucket-size threshold), wide circuits with up to 160 outputs / 120 inputs, circuits with > 64Ki registers whose messages exceed 64 KiB) x uniform inputs x n in 2..5 x p_eval in 0..n x non-empty p_out subset x per-party tmp_dir x link capacity {inf,1,2} x schedule strategy; oracle = independent clear-text interpreter; non-trivial = >=1 AND gate or p_eval!=0 or evaluator not in p_out; distinct by hash of the full case");
    ctx.assume("reliable per-pair FIFO channels (SimNet); engine coins are not seeded, the oracle is coin-independent");
    let small = CaseParams {
        circ: CircParams { n_min: 2, n_max: 5, max_gates: 40, ..Default::default() },
        all_scheds: true,
        caps: vec![0, 0, 1, 2],
        tmp: true,
    };
    let medium = CaseParams { circ: CircParams { n_min: 2, n_max: 4, max_gates: 400, and_weight: 140, ..Default::default() }, all_scheds: false, caps: vec![0, 1], tmp: true };
    let boundary = CaseParams {
        circ: CircParams { n_min: 2, n_max: tier.pick(3, 5), max_gates: 10, bulk: vec![999, 1000, 1001, 1999, 2000, 2001, 2500], bulk_prob: 255, ..Default::default() },
        all_scheds: false,
        caps: vec![0, 1],
        tmp: true,
    };
    let (n_small, n_medium, n_boundary) = tier.pick((190, 30, 20), (9000, 1500, 800));
    prop_search(&ctx, "small", n_small, || gen_case(small.clone()), test_case);
    if !ctx.stopped() {
        prop_search(&ctx, "medium", n_medium, || gen_case(medium.clone()), test_case);
    }
    if !ctx.stopped() {
        prop_search(&ctx, "boundary", n_boundary, || gen_case(boundary.clone()), test_case);
    }
    if !ctx.stopped() {
        let wide = CaseParams { circ: CircParams::wide(2, 4), all_scheds: false, caps: vec![0, 1], tmp: true };
        prop_search(&ctx, "wide", tier.pick(24, 1200), || gen_case(wide.clone()), test_case);
    }
    if !ctx.stopped() {
        let regs = CaseParams { circ: CircParams::huge_regs(2, 3), all_scheds: false, caps: vec![0, 1], tmp: true };
        prop_search(&ctx, "huge_regs", tier.pick(12, 300), || gen_case(regs.clone()), test_case);
    }
    if !ctx.stopped() {
        // AND counts around 3100, where the bucket size of the triple generation changes
        let thr = CaseParams { circ: CircParams { n_min: 2, n_max: tier.pick(2, 3), max_gates: 6, bulk: vec![3099, 3100, 3101, 3200], bulk_prob: 255, ..Default::default() }, all_scheds: false, caps: vec![0], tmp: true };
        prop_search(&ctx, "threshold", tier.pick(4, 48), || gen_case(thr.clone()), test_case);
    }
    if tier == Tier::Thorough && !ctx.stopped() {
        let huge = CaseParams {
            circ: CircParams { n_min: 2, n_max: 3, max_gates: 6, bulk: vec![9001, 9100, 9500], bulk_prob: 255, ..Default::default() },
            all_scheds: false,
            caps: vec![0, 1],
            tmp: true,
        };
        prop_search(&ctx, "huge", 32, || gen_case(huge.clone()), test_case);
    }
    ctx.finish()
}

pub fn replay(path: &str) -> i32 {
    crate::fw::replay_case::<MpcCase, _>("C01", path, 3, test_case)
}
