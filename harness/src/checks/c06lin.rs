//! C06 (v): linear leakage test.  Everything the peer sees about the victim's private bit string x
//! in the first aShare call is linear over GF(2): the 128-bit KOS check value X = sum_j r_j*chi_j
//! (r = x followed by the receiver's random blinding bits), the 120 aBit test bits
//! sum_i x_i*R_t[i] and the 40 opened bits.  With uniformly random blinding bits these equations
//! leave the mask shares of the input wires undetermined.  The harness recomputes the public
//! coins from the coin-toss openings on the wire and solves the system under the hypothesis that
//! the blinding bits are constant (all zero / all one): for the correct protocol that system is
//! inconsistent except with probability 2^-100; if it is consistent the transcript determines x.
use rand::{RngCore, SeedableRng};
use rand_chacha::ChaCha20Rng;

use crate::checks::c06::wide_circ;
use crate::fw::Fail;
use crate::run::{Adversary, MpcCase, check_honest_result, run_mpc};
use crate::sim::exec::ExecCfg;
use crate::sim::net::MsgRec;
use crate::trace::decode;
use crate::wire::Val;

const RHO: usize = 40;

fn opening(msgs: &[MsgRec], from: usize, to: usize, occ: usize) -> Option<[u8; 32]> {
    let m = msgs.iter().find(|m| m.from == from && m.to == to && m.label == "RNG ver" && m.label_occ == occ)?;
    if m.wire.len() != 40 {
        return None;
    }
    m.wire[8..40].try_into().ok()
}

/// rows: bitset over `nvars` unknowns + right-hand side
struct Gf2 {
    nvars: usize,
    rows: Vec<(Vec<u64>, bool)>,
}

impl Gf2 {
    fn new(nvars: usize) -> Self {
        Gf2 { nvars, rows: vec![] }
    }
    fn add(&mut self, coeffs: impl Iterator<Item = (usize, bool)>, rhs: bool) {
        let mut v = vec![0u64; self.nvars.div_ceil(64)];
        for (i, c) in coeffs {
            if c {
                v[i / 64] ^= 1 << (i % 64);
            }
        }
        self.rows.push((v, rhs));
    }
    /// Some(rank) if consistent, None if inconsistent
    fn solve(self) -> Option<usize> {
        self.reduce().map(|(rank, _)| rank)
    }

    /// Reduced row echelon form: Some((rank, coordinates that are determined on their own)) if the
    /// system is consistent.
    fn reduce(mut self) -> Option<(usize, Vec<usize>)> {
        let mut rank = 0;
        for col in 0..self.nvars {
            let Some(p) = (rank..self.rows.len()).find(|r| self.rows[*r].0[col / 64] >> (col % 64) & 1 == 1) else { continue };
            self.rows.swap(rank, p);
            let (pv, pr) = self.rows[rank].clone();
            for r in 0..self.rows.len() {
                if r != rank && self.rows[r].0[col / 64] >> (col % 64) & 1 == 1 {
                    for w in 0..pv.len() {
                        self.rows[r].0[w] ^= pv[w];
                    }
                    self.rows[r].1 ^= pr;
                }
            }
            rank += 1;
        }
        if self.rows.iter().any(|(v, r)| *r && v.iter().all(|w| *w == 0)) {
            return None;
        }
        // a coordinate is determined iff its pivot row has no other coefficient
        let mut determined = vec![];
        for (v, _) in self.rows.iter().take(rank) {
            if v.iter().map(|w| w.count_ones()).sum::<u32>() == 1 {
                let w = v.iter().position(|w| *w != 0).unwrap();
                determined.push(w * 64 + v[w].trailing_zeros() as usize);
            }
        }
        Some((rank, determined))
    }
}

/// One execution; returns Ok(description) or the violation.
pub fn test_once(inputs_seed: u64) -> Result<String, Fail> {
    let n = 2;
    let bits = 8;
    let inputs: Vec<Vec<bool>> = (0..n).map(|p| (0..bits).map(|i| (inputs_seed >> (p * bits + i)) & 1 == 1).collect()).collect();
    let case = MpcCase::simple(wide_circ(n, bits), inputs, 0, vec![0, 1]);
    let run = run_mpc(&case, Adversary::default(), &ExecCfg { record_probes: false, ..Default::default() });
    check_honest_result(&case, &run.res).map_err(|e| Fail::new("C06|wrong-result", e))?;
    let msgs = &run.res.msgs;
    // victim = party 1 (its first OT-extension session towards party 0 is the receiver session)
    let (victim, peer) = (1usize, 0usize);
    let l = case.circ.num_inputs(); // no AND gates: the returned shares are the input masks
    let infra = |s: &str| Fail::new("INFRA", format!("linear leakage test: {s}"));
    // sizes are read off the wire, so that a change of the number of sacrificed bits is judged, not skipped
    let setup = msgs.iter().find(|x| x.from == victim && x.to == peer && x.label == "ALSZ_OT_setup" && x.label_occ == 0).ok_or_else(|| infra("no OT-extension matrix message"))?;
    let Some(Val::Seq(rows)) = decode(setup) else { return Err(infra("OT-extension matrix does not decode")) };
    let Some(Val::Bytes(row0)) = rows.first() else { return Err(infra("empty OT-extension matrix")) };
    let ncols = row0.len() * 8;
    let npad = 128 + RHO;
    if ncols <= npad + l {
        return Ok("model of the public coins is stale for this tree: not judged".to_string());
    }
    let m = ncols - npad;
    let (sa, sb) = (opening(msgs, victim, peer, 0).ok_or_else(|| infra("no pairwise opening"))?, opening(msgs, peer, victim, 0).ok_or_else(|| infra("no pairwise opening"))?);
    let pair_seed: [u8; 32] = std::array::from_fn(|i| sa[i] ^ sb[i]);
    let (ma, mb) = (opening(msgs, victim, peer, 1).ok_or_else(|| infra("no multi opening"))?, opening(msgs, peer, victim, 1).ok_or_else(|| infra("no multi opening"))?);
    let multi_seed: [u8; 32] = std::array::from_fn(|i| ma[i] ^ mb[i]);
    // KOS coefficients of the victim's receiver session (first use of the pairwise generator)
    let mut prg = ChaCha20Rng::from_seed(pair_seed);
    let chis: Vec<[u8; 16]> = (0..ncols)
        .map(|_| {
            let mut c = [0u8; 16];
            prg.fill_bytes(&mut c);
            c
        })
        .collect();
    let kos = msgs.iter().find(|x| x.from == victim && x.to == peer && x.label == "KOS_OT_x_t0_t1" && x.label_occ == 0).ok_or_else(|| infra("no KOS check message"))?;
    let Some(Val::Seq(kv)) = decode(kos) else { return Err(infra("KOS check message does not decode")) };
    let Some(Val::Tup(t)) = kv.first() else { return Err(infra("empty KOS check message")) };
    let Val::B16(xblock) = t[0] else { return Err(infra("bad KOS check message")) };
    let fab = msgs.iter().find(|x| x.from == victim && x.to == peer && x.label == "fabitn" && x.label_occ == 0).ok_or_else(|| infra("no fabitn message"))?;
    let Some(Val::Seq(fv)) = decode(fab) else { return Err(infra("fabitn does not decode")) };
    let xj: Vec<bool> = fv.iter().map(|e| if let Val::Tup(t) = e { matches!(t[0], Val::Bool(1)) } else { false }).collect();
    let ver = msgs.iter().find(|x| x.from == victim && x.to == peer && x.label == "fashare ver" && x.label_occ == 0).ok_or_else(|| infra("no fashare ver message"))?;
    let Some(Val::Seq(vv)) = decode(ver) else { return Err(infra("fashare ver does not decode")) };
    let opened: Vec<bool> = vv.iter().map(|e| if let Val::Bytes(b) = e { b.first().copied().unwrap_or(0) == 1 } else { false }).collect();
    if xj.is_empty() || l + opened.len() > m {
        return Ok("model of the public coins is stale for this tree: not judged".to_string());
    }
    // aBit test combinations; the length of the private bit string is m or up to 7 bits less
    let mut mrg = ChaCha20Rng::from_seed(multi_seed);
    let mut aes_seed = [0u8; 16];
    mrg.fill_bytes(&mut aes_seed);
    let mut model: Option<(usize, Vec<Vec<u8>>, usize)> = None;
    for lprime in (m.saturating_sub(7)..=m).rev() {
        if lprime < l + opened.len() {
            continue;
        }
        let blocks = lprime.div_ceil(128);
        let stream = polytune::verif::aes_rng_fill_seq(aes_seed, &vec![16usize; xj.len() * blocks]);
        let rbit = |t: usize, i: usize| -> bool {
            let blk = &stream[t * blocks + i / 128];
            let k = i % 128;
            blk[k / 8] >> (k % 8) & 1 == 1
        };
        // control: the aBit + opened equations alone must be consistent (the model of the public coins is right)
        let mut ctl = Gf2::new(lprime);
        for (t, b) in xj.iter().enumerate() {
            ctl.add((0..lprime).map(|i| (i, rbit(t, i))), *b);
        }
        for (r, b) in opened.iter().enumerate() {
            ctl.add(std::iter::once((l + r, true)), *b);
        }
        if ctl.solve().is_some() {
            model = Some((lprime, stream, blocks));
            break;
        }
    }
    // the harness' model of the public coins does not fit this tree: nothing can be concluded
    let Some((lprime, stream, blocks)) = model else { return Ok("model of the public coins is stale for this tree: not judged".to_string()) };
    let rbit = |t: usize, i: usize| -> bool {
        let blk = &stream[t * blocks + i / 128];
        let k = i % 128;
        blk[k / 8] >> (k % 8) & 1 == 1
    };
    let chi = |j: usize, k: usize| chis[j][k / 8] >> (k % 8) & 1 == 1;
    // the peer's whole linear view; the blinding bits are unknowns u_0..u_{p-1} repeated with period p
    // (p = number of blinding bits: every one of them free, as it should be)
    let threshold = (l / 2).max(4).min(l);
    let mut least_rank_gap = usize::MAX;
    for p in [npad, 1, 8, 16, 32, 64] {
        let nvars = lprime + p;
        let mut sys = Gf2::new(nvars);
        for k in 0..128 {
            let mut coeff = vec![false; nvars];
            for (j, c) in coeff.iter_mut().enumerate().take(lprime) {
                *c = chi(j, k);
            }
            for q in 0..npad {
                coeff[lprime + q % p] ^= chi(m + q, k);
            }
            sys.add(coeff.into_iter().enumerate(), xblock[k / 8] >> (k % 8) & 1 == 1);
        }
        for (t, b) in xj.iter().enumerate() {
            sys.add((0..lprime).map(|i| (i, rbit(t, i))), *b);
        }
        for (r, b) in opened.iter().enumerate() {
            sys.add(std::iter::once((l + r, true)), *b);
        }
        if let Some((rank, determined)) = sys.reduce() {
            least_rank_gap = least_rank_gap.min(nvars - rank);
            let det_inputs = determined.iter().filter(|i| **i < l).count();
            if det_inputs >= threshold {
                let hyp = if p == npad { "without any assumption on the blinding bits of the OT-extension consistency check".to_string() } else { format!("under the hypothesis that the blinding bits of the OT-extension consistency check repeat with period {p}") };
                return Err(Fail::new(
                    "C06|mask-shares-determined-by-transcript",
                    format!("{hyp}, the {} linear equations the peer sees (KOS check value, {} aBit test bits, {} opened aShare bits; public coins recomputed from the coin-toss openings; private bit string of {lprime} bits) are consistent and determine {det_inputs} of the {l} mask shares party {victim} returns to the online phase", 128 + xj.len() + opened.len(), xj.len(), opened.len()),
                ));
            }
        }
    }
    Ok(format!("lprime={lprime}, test bits={}, opened={}, free-blinding system leaves >= {least_rank_gap} dimensions open, periodic-blinding hypotheses inconsistent or undetermined", xj.len(), opened.len()))
}
