//! C06 (v): linear leakage test.  Everything the peer sees about the victim's private bit string x
//! in the first aShare call is linear over GF(2): the 128-bit KOS check value X = sum_j r_j*chi_j
//! (r = x followed by the receiver's random blinding bits), the 120 aBit test bits
//! sum_i x_i*R_t[i] and the 40 opened bits.  With uniformly random blinding bits these equations
//! leave the mask shares of the input wires undetermined.  The harness recomputes the public
//! coins from the coin-toss openings on the wire and solves the system under the hypothesis that
//! the blinding bits are constant (all zero / all one): for the correct protocol that system is
//! inconsistent except with probability 2^-100; if it is consistent the transcript determines x.
use rand::{RngCore, SeedableRng};
use rand_chacha::ChaCha20Rng;

use crate::checks::c06::wide_circ;
use crate::fw::Fail;
use crate::run::{Adversary, MpcCase, check_honest_result, run_mpc};
use crate::sim::exec::ExecCfg;
use crate::sim::net::MsgRec;
use crate::trace::decode;
use crate::wire::Val;

const RHO: usize = 40;

fn opening(msgs: &[MsgRec], from: usize, to: usize, occ: usize) -> Option<[u8; 32]> {
    let m = msgs.iter().find(|m| m.from == from && m.to == to && m.label == "RNG ver" && m.label_occ == occ)?;
    if m.wire.len() != 40 {
        return None;
    }
    m.wire[8..40].try_into().ok()
}

/// rows: bitset over `nvars` unknowns + right-hand side
struct Gf2 {
    nvars: usize,
    rows: Vec<(Vec<u64>, bool)>,
}

impl Gf2 {
    fn new(nvars: usize) -> Self {
        Gf2 { nvars, rows: vec![] }
    }
    fn add(&mut self, coeffs: impl Iterator<Item = (usize, bool)>, rhs: bool) {
        let mut v = vec![0u64; self.nvars.div_ceil(64)];
        for (i, c) in coeffs {
            if c {
                v[i / 64] ^= 1 << (i % 64);
            }
        }
        self.rows.push((v, rhs));
    }
    /// Some(rank) if consistent, None if inconsistent
    fn solve(mut self) -> Option<usize> {
        let mut rank = 0;
        for col in 0..self.nvars {
            let Some(p) = (rank..self.rows.len()).find(|r| self.rows[*r].0[col / 64] >> (col % 64) & 1 == 1) else { continue };
            self.rows.swap(rank, p);
            let (pv, pr) = self.rows[rank].clone();
            for r in 0..self.rows.len() {
                if r != rank && self.rows[r].0[col / 64] >> (col % 64) & 1 == 1 {
                    for w in 0..pv.len() {
                        self.rows[r].0[w] ^= pv[w];
                    }
                    self.rows[r].1 ^= pr;
                }
            }
            rank += 1;
        }
        if self.rows.iter().any(|(v, r)| *r && v.iter().all(|w| *w == 0)) {
            return None;
        }
        Some(rank)
    }
}

/// One execution; returns Ok(description) or the violation.
pub fn test_once(inputs_seed: u64) -> Result<String, Fail> {
    let n = 2;
    let bits = 8;
    let inputs: Vec<Vec<bool>> = (0..n).map(|p| (0..bits).map(|i| (inputs_seed >> (p * bits + i)) & 1 == 1).collect()).collect();
    let case = MpcCase::simple(wide_circ(n, bits), inputs, 0, vec![0, 1]);
    let run = run_mpc(&case, Adversary::default(), &ExecCfg { record_probes: false, ..Default::default() });
    check_honest_result(&case, &run.res).map_err(|e| Fail::new("C06|wrong-result", e))?;
    let msgs = &run.res.msgs;
    // victim = party 1 (its first OT-extension session towards party 0 is the receiver session)
    let (victim, peer) = (1usize, 0usize);
    let l = case.circ.num_inputs(); // no AND gates: secret bits = inputs
    let lprime = l + RHO + 3 * RHO;
    let m = lprime.next_multiple_of(8);
    let ncols = m + 128 + RHO;
    let infra = |s: &str| Fail::new("INFRA", format!("linear leakage test: {s}"));
    let (sa, sb) = (opening(msgs, victim, peer, 0).ok_or_else(|| infra("no pairwise opening"))?, opening(msgs, peer, victim, 0).ok_or_else(|| infra("no pairwise opening"))?);
    let pair_seed: [u8; 32] = std::array::from_fn(|i| sa[i] ^ sb[i]);
    let (ma, mb) = (opening(msgs, victim, peer, 1).ok_or_else(|| infra("no multi opening"))?, opening(msgs, peer, victim, 1).ok_or_else(|| infra("no multi opening"))?);
    let multi_seed: [u8; 32] = std::array::from_fn(|i| ma[i] ^ mb[i]);
    // KOS coefficients of the victim's receiver session (first use of the pairwise generator)
    let mut prg = ChaCha20Rng::from_seed(pair_seed);
    let chis: Vec<[u8; 16]> = (0..ncols)
        .map(|_| {
            let mut c = [0u8; 16];
            prg.fill_bytes(&mut c);
            c
        })
        .collect();
    let kos = msgs.iter().find(|x| x.from == victim && x.to == peer && x.label == "KOS_OT_x_t0_t1" && x.label_occ == 0).ok_or_else(|| infra("no KOS check message"))?;
    let Some(Val::Seq(kv)) = decode(kos) else { return Err(infra("KOS check message does not decode")) };
    let Some(Val::Tup(t)) = kv.first() else { return Err(infra("empty KOS check message")) };
    let Val::B16(xblock) = t[0] else { return Err(infra("bad KOS check message")) };
    // aBit test combinations
    let mut mrg = ChaCha20Rng::from_seed(multi_seed);
    let mut aes_seed = [0u8; 16];
    mrg.fill_bytes(&mut aes_seed);
    let blocks = lprime.div_ceil(128);
    let stream = polytune::verif::aes_rng_fill_seq(aes_seed, &vec![16usize; 3 * RHO * blocks]);
    let rbit = |t: usize, i: usize| -> bool {
        let blk = &stream[t * blocks + i / 128];
        let k = i % 128;
        blk[k / 8] >> (k % 8) & 1 == 1
    };
    let fab = msgs.iter().find(|x| x.from == victim && x.to == peer && x.label == "fabitn" && x.label_occ == 0).ok_or_else(|| infra("no fabitn message"))?;
    let Some(Val::Seq(fv)) = decode(fab) else { return Err(infra("fabitn does not decode")) };
    let xj: Vec<bool> = fv.iter().map(|e| if let Val::Tup(t) = e { matches!(t[0], Val::Bool(1)) } else { false }).collect();
    if xj.len() != 3 * RHO {
        return Err(infra("unexpected number of aBit test bits"));
    }
    let ver = msgs.iter().find(|x| x.from == victim && x.to == peer && x.label == "fashare ver" && x.label_occ == 0).ok_or_else(|| infra("no fashare ver message"))?;
    let Some(Val::Seq(vv)) = decode(ver) else { return Err(infra("fashare ver does not decode")) };
    let opened: Vec<bool> = vv.iter().map(|e| if let Val::Bytes(b) = e { b.first().copied().unwrap_or(0) == 1 } else { false }).collect();
    // sanity: the aBit equations must hold for the true system (otherwise the harness' model of the
    // public coins is stale and nothing can be concluded)
    for (hyp_name, pad) in [("all zero", false), ("all one", true)] {
        let mut sys = Gf2::new(lprime);
        for k in 0..128 {
            // X[k] = sum_{j<lprime} x_j chi_j[k] + sum_{pad j} pad * chi_j[k]
            let mut rhs = xblock[k / 8] >> (k % 8) & 1 == 1;
            if pad {
                for c in &chis[m..ncols] {
                    rhs ^= c[k / 8] >> (k % 8) & 1 == 1;
                }
            }
            sys.add((0..lprime).map(|j| (j, chis[j][k / 8] >> (k % 8) & 1 == 1)), rhs);
        }
        for t in 0..3 * RHO {
            sys.add((0..lprime).map(|i| (i, rbit(t, i))), xj[t]);
        }
        for (r, b) in opened.iter().enumerate() {
            sys.add(std::iter::once((l + r, true)), *b);
        }
        if let Some(rank) = sys.solve() {
            if rank == lprime {
                return Err(Fail::new(
                    "C06|mask-shares-determined-by-transcript",
                    format!("under the hypothesis that the blinding bits of the OT-extension consistency check are {hyp_name}, the {} linear equations the peer sees (KOS check value, aBit test bits, opened aShare bits; public coins recomputed from the coin-toss openings) are consistent and determine all {lprime} private bits of party {victim}, including its input mask shares", 128 + 3 * RHO + RHO),
                ));
            }
        }
    }
    // control: the aBit + opened equations alone must be consistent (the model of the public coins is right)
    let mut ctl = Gf2::new(lprime);
    for t in 0..3 * RHO {
        ctl.add((0..lprime).map(|i| (i, rbit(t, i))), xj[t]);
    }
    for (r, b) in opened.iter().enumerate() {
        ctl.add(std::iter::once((l + r, true)), *b);
    }
    match ctl.solve() {
        Some(rank) => Ok(format!("lprime={lprime}, rank of aBit+opened equations={rank}, hypothesis systems inconsistent")),
        // the harness' model of the public coins does not fit this tree: nothing can be concluded
        None => Ok("model of the public coins is stale for this tree: not judged".to_string()),
    }
}
