//! C07 - a party's global key stays secret, in honest runs and under attack.
use std::collections::HashSet;

use serde::{Deserialize, Serialize};
use serde_json::json;

use crate::adv::{AttackCase, run_attack};
use crate::circ::CircParams;
use crate::fw::{CaseInfo, Ctx, Fail, Tier, enumerate, hash_of, prop_search};
use crate::gens::{CaseParams, gen_case};
use crate::run::MpcCase;
use crate::sim::exec::{ExecCfg, RunResult};
use crate::wire::{decode_msg, fields128, label_ty};

#[derive(Clone, Debug, Serialize, Deserialize)]
pub struct Case {
    pub attack: AttackCase,
    /// None = honest run (every party is judged)
    pub honest_only: bool,
    pub three_subsets: bool,
    pub origin: String,
}

/// Scans the pool for the key of every judged party.  Returns a description of the first hit.
pub fn scan(res: &RunResult<Vec<bool>>, judged: &[usize], three: bool) -> (usize, usize, Vec<(String, String)>) {
    let mut hits: Vec<(String, String)> = vec![];
    // pool bytes: everything anyone put on the wire + the evaluator's labels
    let mut windows: HashSet<[u8; 16]> = HashSet::new();
    let mut total_bytes = 0usize;
    for m in &res.msgs {
        total_bytes += m.wire.len();
        for w in m.wire.windows(16) {
            windows.insert(w.try_into().unwrap());
        }
    }
    // values are serialised in both byte orders (bincode: little-endian, MAC strings of aShare:
    // big-endian), so the lookup set also holds every window reversed
    let originals: Vec<[u8; 16]> = windows.iter().copied().collect();
    for w in &originals {
        let mut r = *w;
        r.reverse();
        windows.insert(r);
    }
    let mut fields: Vec<u128> = vec![];
    for m in &res.msgs {
        if let Some(ty) = label_ty(&m.label) {
            if let Some(v) = decode_msg(&m.wire, &ty) {
                fields128(&v, &mut fields);
            }
        }
    }
    for p in res.probes.iter().filter(|p| p.site == "eval_label") {
        fields.push(p.val);
        windows.insert(p.val.to_le_bytes());
        windows.insert(p.val.to_be_bytes());
    }
    // values that blind or mask key-dependent data are fresh: inside one message of the OT and
    // preprocessing phases no non-trivial 128-bit field occurs twice (two equal blinding values
    // cancel each other)
    for m in res.msgs.iter().filter(|m| judged.contains(&m.from) && !m.tampered) {
        if m.label.starts_with("broadcast ") || ["lambda", "output wire shares", "wire shares", "labels", "masked inputs", "preprocessed gates"].contains(&m.label.as_str()) {
            continue;
        }
        if let Some(v) = label_ty(&m.label).and_then(|ty| decode_msg(&m.wire, &ty)) {
            let mut f = vec![];
            fields128(&v, &mut f);
            f.retain(|x| *x != 0 && *x != u128::MAX);
            // (16-byte strings are listed in both byte orders, as two different values)
            let mut seen: HashSet<u128> = HashSet::new();
            let rep = f.iter().find(|x| !seen.insert(**x)).copied();
            if let Some(x) = rep {
                let sig = format!("repeated-field|{}", m.label);
                if !hits.iter().any(|h| h.0 == sig) {
                    hits.push((sig, format!("the 128-bit value {x:032x} occurs more than once inside the {:?} message #{} that party {} sends to party {}: a blinding / masking value is reused", m.label, m.label_occ, m.from, m.to)));
                }
            }
        }
    }
    fields.sort();
    fields.dedup();
    let fset: HashSet<u128> = fields.iter().copied().collect();
    let mut index: Option<std::collections::HashMap<[u8; 16], u32>> = None;
    for &party in judged {
        let Some(delta) = res.probes.iter().find(|p| p.site == "delta" && p.party == party).map(|p| p.val) else { continue };
        for (order, target) in [("little-endian", delta.to_le_bytes()), ("big-endian", delta.to_be_bytes())] {
            if windows.contains(&target) {
                hits.push(("key".into(), format!("the global key of party {party} appears in the pool ({order})")));
            }
            for w in &originals {
                let x: [u8; 16] = std::array::from_fn(|i| w[i] ^ target[i]);
                if windows.contains(&x) {
                    // index window -> first message holding it, built at the first hit only
                    let index = index.get_or_insert_with(|| {
                        let mut ix: std::collections::HashMap<[u8; 16], u32> = std::collections::HashMap::new();
                        for (k, m) in res.msgs.iter().enumerate() {
                            for y in m.wire.windows(16) {
                                ix.entry(y.try_into().unwrap()).or_insert(k as u32);
                            }
                        }
                        ix
                    });
                    let find = |bytes: &[u8; 16]| {
                        let mut rev = *bytes;
                        rev.reverse();
                        match (index.get(bytes), index.get(&rev)) {
                            (Some(a), Some(b)) => Some(&res.msgs[*a.min(b) as usize]),
                            (Some(a), None) | (None, Some(a)) => Some(&res.msgs[*a as usize]),
                            (None, None) => None,
                        }
                    };
                    let name = |m: Option<&crate::sim::net::MsgRec>| m.map(|m| m.label.clone()).unwrap_or_else(|| "evaluator label".into());
                    let desc = |m: Option<&crate::sim::net::MsgRec>| m.map(|m| format!("{:?}#{} {}->{}", m.label, m.label_occ, m.from, m.to)).unwrap_or_else(|| "evaluator label".into());
                    let (a, b) = (find(w), find(&x));
                    let mut names = [name(a), name(b)];
                    names.sort();
                    let sig = format!("xor2|{}+{}", names[0], names[1]);
                    if !hits.iter().any(|h| h.0 == sig) {
                        hits.push((sig, format!("two 16-byte values in the pool XOR to the global key of party {party}: one in {}, the other in {}", desc(a), desc(b))));
                    }
                }
            }
        }
        if three && fields.len() <= 6000 {
            for i in 0..fields.len() {
                for j in i + 1..fields.len() {
                    let t = fields[i] ^ fields[j] ^ delta;
                    if t != fields[i] && t != fields[j] && fset.contains(&t) {
                        if !hits.iter().any(|h| h.0 == "xor3") {
                            hits.push(("xor3".into(), format!("three decoded 128-bit fields XOR to the global key of party {party}")));
                        }
                    }
                }
            }
        }
    }
    (total_bytes, fields.len(), hits)
}

pub fn test_case(c: &Case, ctx: Option<&Ctx>) -> Result<CaseInfo, Fail> {
    let run = run_attack(&c.attack, &ExecCfg { record_probes: true, step_budget: 3_000_000, slow_sends: false });
    let n = c.attack.base.n();
    let judged: Vec<usize> = if c.honest_only { (0..n).collect() } else { c.attack.honest_parties() };
    // the evaluator must be able to open exactly one row per AND gate and garbler with what it holds
    if let Some(pr) = run.res.probes.iter().find(|p| p.site == "eval_extra_row") {
        let garbler = (pr.val >> 64) as usize;
        if c.honest_only || garbler != c.attack.corrupt {
            return Err(Fail::new(
                "C07|second-row-opens",
                format!("with the labels it holds the evaluator can decrypt a second row (row {}) of the garbled gate at instruction {} of garbler {garbler}: it obtains both labels of a wire (n={n}, origin={})", pr.val & 0xff, (pr.val >> 8) & 0xffff_ffff, c.origin),
            ));
        }
    }
    let (bytes, nfields, hits) = scan(&run.res, &judged, c.three_subsets);
    for (sig, e) in hits {
        let f = Fail::new(
            format!("C07|{sig}"),
            format!("{e}; run: n={n} corrupt={} origin={} faults={:?} taps={:?}", if c.honest_only { "none".to_string() } else { c.attack.corrupt.to_string() }, c.origin, c.attack.faults, c.attack.taps),
        );
        // a listed finding is counted and the scan of this run continues with the other hits
        match ctx {
            Some(ctx) if ctx.is_known(&f) => ctx.count_class(&format!("known:{}", f.signature)),
            _ => return Err(f),
        }
    }
    let sent_keyed = run.res.msgs.iter().any(|m| judged.contains(&m.from) && (m.label == "fabitn" || m.label == "KOS_OT_corr"));
    Ok(CaseInfo {
        nontrivial: sent_keyed.then(|| hash_of(&(serde_json::to_string(&c.attack).unwrap(), run.res.trace_hash))),
        classes: vec![format!("origin={}", c.origin.split(':').next().unwrap_or("")), format!("n={n}"), if c.three_subsets { "3-subsets".into() } else { "1,2-subsets".into() }],
        sample: Some(json!({"origin": c.origin, "n": n, "pool_bytes": bytes, "decoded_128bit_fields": nfields, "three_subsets": c.three_subsets, "faults": c.attack.faults, "taps": c.attack.taps})),
        ..Default::default()
    })
}

pub fn run(tier: Tier, seed: u64) -> i32 {
    let ctx = Ctx::new("C07", tier, seed, "fault_enumeration");
    ctx.set_rule("pool scan over (i) proptest-generated honest runs (circuits with NOT gates, n in 2..4, all roles; plus circuits of 1001..2300 AND gates whose garbled tables and triples span several batches, n in 2..3) and (ii) the enumerated deviations of the C04 table (incl. every-batch persistent variants and taps) and of the C03 table; pool = every byte any party put on the wire plus the labels the evaluator decrypted (probe); oracle: for every honest party's global key (probe) - not present at any byte offset in either byte order, no two 16-byte windows (all offsets) XOR to it, no three decoded 128-bit fields XOR to it (runs with <= 6000 fields); no non-trivial 128-bit field occurs twice inside one untampered message of the OT / preprocessing phases sent by a judged party (a reused blinding or masking value); and the evaluator, trying the labels it holds on the three other rows of every garbled gate (hook), opens none of them; aborted runs count (bytes already sent); non-trivial = the judged party sent keyed values (aBit stage reached)");
    ctx.assume("chance hit probability <= F^3 * 2^-128");
    // (i) honest runs
    let cp = CaseParams { circ: CircParams { n_min: 2, n_max: 4, max_gates: 25, ..Default::default() }, all_scheds: false, caps: vec![0], tmp: false };
    let counter = std::sync::atomic::AtomicUsize::new(0);
    prop_search(&ctx, "honest", tier.pick(64, 4000), || gen_case(cp.clone()), |base: &MpcCase| {
        let k = counter.fetch_add(1, std::sync::atomic::Ordering::Relaxed);
        test_case(&Case { attack: AttackCase::honest(base.clone(), 0), honest_only: true, three_subsets: base.n() == 2 && k % 2 == 0, origin: "honest".into() }, Some(&ctx))
    });
    // (i') honest runs whose AND gates span several garbling / preprocessing batches
    if !ctx.stopped() {
        let big = CaseParams { circ: CircParams { n_min: 2, n_max: 3, max_gates: 8, bulk: vec![1001, 1100, 1999, 2001, 2300], bulk_prob: 255, ..Default::default() }, all_scheds: false, caps: vec![0], tmp: false };
        prop_search(&ctx, "honest-multibatch", tier.pick(6, 150), || gen_case(big.clone()), |base: &MpcCase| {
            test_case(&Case { attack: AttackCase::honest(base.clone(), 0), honest_only: true, three_subsets: false, origin: "honest-multibatch".into() }, Some(&ctx))
        });
    }
    // (ii) deviations
    if !ctx.stopped() {
        let mut cases = vec![];
        let cfgs: Vec<(usize, usize, usize)> = tier.pick(vec![(2, 0, 0), (2, 1, 1), (3, 1, 0)], vec![(2, 0, 0), (2, 1, 0), (2, 0, 1), (2, 1, 1), (3, 0, 0), (3, 1, 0), (3, 2, 1)]);
        for (i, (n, corrupt, p_eval)) in cfgs.into_iter().enumerate() {
            let inputs = (0..n).map(|p| vec![(seed as usize + p) % 2 == 0]).collect();
            let base = MpcCase::simple(crate::checks::c04::circ8(n), inputs, p_eval, (0..n).collect());
            match crate::checks::c04::entries(&base, corrupt, tier == Tier::Thorough, seed as usize + i) {
                Ok(es) => {
                    for e in es {
                        cases.push(Case { attack: e.attack, honest_only: false, three_subsets: false, origin: format!("C04:{}", e.row) });
                    }
                }
                Err(e) => {
                    ctx.infra(e);
                    return ctx.finish();
                }
            }
            let inputs3: Vec<Vec<bool>> = (0..n).map(|p| vec![p % 2 == 0, true]).collect();
            let base3 = MpcCase::simple(crate::checks::c03::circ(n, 1), inputs3, p_eval, (0..n).collect());
            if let Ok(es) = crate::checks::c03::entries(&base3, corrupt, &[0]) {
                for (k, e) in es.into_iter().enumerate() {
                    if tier == Tier::Thorough || k % 3 == (seed as usize) % 3 {
                        cases.push(Case { attack: e.attack, honest_only: false, three_subsets: false, origin: format!("C03:{}", e.row) });
                    }
                }
            }
        }
        ctx.extra("enumerated_deviations", json!(cases.len()));
        enumerate(&ctx, &cases, |c| test_case(c, Some(&ctx)));
    }
    ctx.finish()
}

pub fn replay(path: &str) -> i32 {
    crate::fw::replay_case::<Case, _>("C07", path, 4, |c| test_case(c, None))
}
