//! C04 - preprocessing: cheating detected, commit-before-reveal, challenge-after-data.
use proptest::prelude::*;
use serde::{Deserialize, Serialize};
use serde_json::json;

use crate::adv::{Anchor, AttackCase, Fault, TapAction, TapSpec, Target};
use crate::checks::md::{Entry, test_entry, wl};
use crate::circ::{CircSpec, GOp};
use crate::fw::{CaseInfo, Ctx, Fail, Tier, enumerate, hash_of, prop_search};
use crate::gens::gen_sched;
use crate::run::{Adversary, MpcCase, check_honest_result, run_mpc};
use crate::sim::exec::{ExecCfg, RunResult};
use crate::sim::net::{EvKind, MsgRec};
use crate::sim::sched::SchedSpec;
use crate::trace::{check_codec, decode};
use crate::wire::{MsgMut, TreeMut, Val};

/// 8 AND gates (=> 40 leaky triples, bucket size 5), every party contributes.
pub fn circ8(n: usize) -> CircSpec {
    let mut insts = vec![];
    for p in 0..n {
        insts.push((p as u32, GOp::Input { party: p as u32, input: 0 }));
    }
    let b = n as u32;
    insts.push((b, GOp::Xor(0, 1)));
    let mut prev = b;
    for k in 0..8u32 {
        let other = k % n as u32;
        insts.push((b + 1 + (k % 2), GOp::And(prev, other)));
        insts.push((b + 1 + (k % 2), GOp::Xor(b + 1 + (k % 2), (k + 1) % n as u32)));
        prev = b + 1 + (k % 2);
    }
    CircSpec { input_regs: vec![1; n], insts, max_reg_count: n + 3, output_regs: vec![prev, b], and_ops: 8 }
}

/// chain of `k` AND gates over the parties' single input bits
pub fn circ_ands(n: usize, k: usize) -> CircSpec {
    let mut insts = vec![];
    for p in 0..n {
        insts.push((p as u32, GOp::Input { party: p as u32, input: 0 }));
    }
    let b = n as u32;
    insts.push((b, GOp::Xor(0, 1)));
    for i in 0..k as u32 {
        insts.push((b + 1, GOp::And(b, i % n as u32)));
        insts.push((b, GOp::Xor(b + 1, (i + 1) % n as u32)));
    }
    CircSpec { input_regs: vec![1; n], insts, max_reg_count: n + 2, output_regs: vec![b, b + 1], and_ops: k }
}

const ASHARE: [&str; 3] = ["fashare comm", "fashare ver", "fashare di_bi"];
const LAAND: [&str; 4] = ["haand", "flaand", "flaand comm", "flaand hash"];

fn seq_len(v: &Val) -> usize {
    match v {
        Val::Seq(s) => s.len(),
        _ => 0,
    }
}

fn indices(len: usize, all: bool, salt: usize) -> Vec<usize> {
    if len == 0 {
        return vec![];
    }
    if all {
        (0..len).collect()
    } else {
        let mut v = vec![0, len - 1, (salt * 7 + 3) % len];
        v.sort();
        v.dedup();
        v
    }
}

pub fn entries(base: &MpcCase, corrupt: usize, all_idx: bool, salt: usize) -> Result<Vec<Entry>, String> {
    entries_filtered(base, corrupt, all_idx, salt, false)
}

/// `only_equivocation`: keep only the broadcast-equivocation rows (used for n = 4)
pub fn entries_filtered(base: &MpcCase, corrupt: usize, all_idx: bool, salt: usize, only_equivocation: bool) -> Result<Vec<Entry>, String> {
    let tmpl = run_mpc(base, Adversary::default(), &ExecCfg { record_probes: false, ..Default::default() });
    if let Err(e) = check_codec(&tmpl.res.msgs) {
        eprintln!("note: wire grammar is stale for this tree ({e}); table rows of such messages are skipped");
    }
    if !tmpl.res.outcomes.iter().all(|o| o.is_ok()) {
        return Err("template run failed".into());
    }
    let n = base.n();
    let mut out: Vec<Entry> = vec![];
    let honest: Vec<usize> = (0..n).filter(|p| *p != corrupt).collect();
    // equivocation rows are generated at the first and at the last element of the broadcast vector
    // (a digest that does not cover the whole vector would miss the latter)
    let last_too = |out: &mut Vec<Entry>, first: &Entry, len: usize, path_tail: Vec<usize>, m: TreeMut| {
        if len > 1 {
            let mut e = first.clone();
            if let Some(f) = e.attack.faults.first_mut() {
                let mut path = vec![len - 1];
                path.extend(path_tail);
                f.mutation = MsgMut::Tree { path, m };
            }
            e.row = format!("{} (last element)", e.row);
            out.push(e);
        }
    };
    for m in tmpl.res.msgs.iter().filter(|m| m.from == corrupt) {
        let k = m.sender_idx;
        let Some(v) = decode(m) else { continue };
        let len = seq_len(&v);
        let one = |row: &str, mu: MsgMut, whitelist: Vec<String>, ot: bool| Entry {
            row: row.to_string(),
            attack: AttackCase { faults: vec![Fault { target: Target::SenderIdx(k), mutation: mu }], ..AttackCase::honest(base.clone(), corrupt) },
            victims: vec![m.to],
            anchor: Anchor::Tampered,
            whitelist,
            ot_group: ot,
        };
        // the same alteration towards every recipient and in every occurrence (persistent attacker)
        let everywhere = |row: &str, mu: MsgMut, whitelist: Vec<String>, ot: bool| Entry {
            row: format!("{row} [all recipients, every batch]"),
            attack: AttackCase { faults: vec![Fault { target: Target::Label { label: m.label.clone(), occ: None, to: None }, mutation: mu }], ..AttackCase::honest(base.clone(), corrupt) },
            victims: honest.clone(),
            anchor: Anchor::Tampered,
            whitelist,
            ot_group: ot,
        };
        let first_copy = m.to == honest[0];
        let tm = |path: Vec<usize>, m: TreeMut| MsgMut::Tree { path, m };
        match m.label.as_str() {
            "RNG comm" => {
                let w = wl(&["RNG comm", "RNG ver"]);
                out.push(one(&format!("coin toss: commitment altered (occ {})", m.label_occ), tm(vec![0], TreeMut::FlipBit(5)), w.clone(), false));
                if m.label_occ == 1 && n >= 3 {
                    // verified broadcast: different commitments to the two recipients
                    let mut e = one("broadcast equivocation: RNG comm", tm(vec![0], TreeMut::FlipBit(9)), w, false);
                    e.victims = honest.clone();
                    // an equivocation must be noticed in the echo round itself
                    e.whitelist = wl(&[m.label.as_str()]);
                    out.push(e);
                }
            }
            "RNG ver" => {
                out.push(one(&format!("coin toss: opening altered (occ {})", m.label_occ), tm(vec![3], TreeMut::FlipBit(0)), wl(&["RNG ver"]), false));
            }
            "CO_OT_s" => {
                let ms = (0..32).map(|i| (vec![i], TreeMut::Ones)).collect();
                out.push(one("base OT: sender point not decodable", MsgMut::Multi(ms), vec![], true));
            }
            "CO_OT_r" => {
                for i in indices(len, false, salt) {
                    out.push(one("base OT: receiver point not decodable", tm(vec![i], TreeMut::Ones), vec![], true));
                }
            }
            "ALSZ_OT_setup" => {
                // one column flipped in all rows: the receiver's choice for that column differs from the one it uses in the check
                for col in [0u32, 3, 130] {
                    let ms = (0..len).map(|r| (vec![r], TreeMut::FlipBit(col))).collect();
                    out.push(one("KOS: correlation column flipped in all rows", MsgMut::Multi(ms), wl(&["KOS_OT_x_t0_t1"]), true));
                }
            }
            "KOS_OT_x_t0_t1" => {
                for f in 0..3 {
                    for bit in [0u32, 127] {
                        out.push(one("KOS: check value altered", tm(vec![0, f], TreeMut::FlipBit(bit)), vec![], true));
                    }
                }
            }
            "fabitn" => {
                let w = wl(&["fabitn"]);
                for j in indices(len, all_idx, salt) {
                    out.push(one("aBit: test bit altered", tm(vec![j, 0], TreeMut::FlipBit(0)), w.clone(), false));
                    out.push(one("aBit: test MAC altered", tm(vec![j, 1], TreeMut::FlipBit((j as u32 * 13) % 128)), w.clone(), false));
                }
                if n >= 3 {
                    let mut e = one("broadcast equivocation: fabitn bits", tm(vec![1, 0], TreeMut::FlipBit(0)), w.clone(), false);
                    e.victims = honest.clone();
                    // an equivocation must be noticed in the echo round itself
                    e.whitelist = wl(&[m.label.as_str()]);
                    last_too(&mut out, &e, len, vec![0], TreeMut::FlipBit(0));
                    out.push(e);
                }
                out.push(one("aBit: two test bits altered", MsgMut::Multi(vec![(vec![0, 0], TreeMut::FlipBit(0)), (vec![len - 1, 0], TreeMut::FlipBit(0))]), w.clone(), false));
                out.push(one("aBit: same bit of two test MACs altered", MsgMut::Multi(vec![(vec![1, 1], TreeMut::FlipBit(3)), (vec![2, 1], TreeMut::FlipBit(3))]), w.clone(), false));
                if first_copy {
                    out.push(everywhere("aBit: test bit altered", tm(vec![2, 0], TreeMut::FlipBit(0)), w, false));
                }
            }
            "fashare comm" => {
                let w = wl(&ASHARE);
                for r in indices(len, all_idx, salt) {
                    out.push(one("aShare: commitments to d0 and d1 altered", MsgMut::Multi(vec![(vec![r, 0], TreeMut::FlipBit(1)), (vec![r, 1], TreeMut::FlipBit(1))]), w.clone(), false));
                    out.push(one("aShare: commitment to the MAC/bit string altered", tm(vec![r, 2], TreeMut::FlipBit(2)), w.clone(), false));
                }
                if n >= 3 {
                    let mut e = one("broadcast equivocation: fashare comm", tm(vec![0, 0], TreeMut::FlipBit(0)), w, false);
                    e.victims = honest.clone();
                    // an equivocation must be noticed in the echo round itself
                    e.whitelist = wl(&[m.label.as_str()]);
                    last_too(&mut out, &e, len, vec![0], TreeMut::FlipBit(0));
                    out.push(e);
                }
            }
            "fashare ver" => {
                let w = wl(&ASHARE);
                // layout of an element: [bit, MAC under key of each other party in index order (16 bytes each)]
                let slot = |owner: usize| if owner > corrupt { owner - 1 } else { owner };
                for r in indices(len, all_idx, salt) {
                    out.push(one("aShare: check bit value 2", tm(vec![r], TreeMut::SetByte(2)), w.clone(), false));
                    out.push(one("aShare: check bit flipped, MACs intact", tm(vec![r], TreeMut::FlipBit(0)), w.clone(), false));
                    let own = 8 * (1 + 16 * slot(m.to) as u32) + (r as u32 * 5) % 128;
                    out.push(one("aShare: MAC under the victim's key altered", tm(vec![r], TreeMut::FlipBit(own)), w.clone(), false));
                    for third in (0..n).filter(|p| *p != corrupt && *p != m.to) {
                        let b = 8 * (1 + 16 * slot(third) as u32) + 3;
                        out.push(one("aShare: MAC under a third party's key altered", tm(vec![r], TreeMut::FlipBit(b)), w.clone(), false));
                    }
                }
                if first_copy {
                    out.push(everywhere("aShare: check bit flipped, MACs intact", tm(vec![1], TreeMut::FlipBit(0)), w.clone(), false));
                }
                if n >= 3 {
                    let mut e = one("broadcast equivocation: fashare ver", tm(vec![0], TreeMut::FlipBit(0)), w, false);
                    e.victims = honest.clone();
                    // an equivocation must be noticed in the echo round itself
                    e.whitelist = wl(&[m.label.as_str()]);
                    last_too(&mut out, &e, len, vec![], TreeMut::FlipBit(0));
                    out.push(e);
                }
            }
            "fashare di_bi" => {
                let w = wl(&ASHARE);
                for r in indices(len, all_idx, salt) {
                    out.push(one("aShare: opened key sum altered", tm(vec![r], TreeMut::FlipBit((r as u32 * 3) % 128)), w.clone(), false));
                }
                out.push(one("aShare: same bit of two opened key sums altered", MsgMut::Multi(vec![(vec![0], TreeMut::FlipBit(7)), (vec![len - 1], TreeMut::FlipBit(7))]), w.clone(), false));
                if n >= 3 {
                    let mut e = one("broadcast equivocation: fashare di_bi", tm(vec![0], TreeMut::FlipBit(0)), w, false);
                    e.victims = honest.clone();
                    // an equivocation must be noticed in the echo round itself
                    e.whitelist = wl(&[m.label.as_str()]);
                    last_too(&mut out, &e, len, vec![], TreeMut::FlipBit(0));
                    out.push(e);
                }
            }
            "haand" => {
                // both bits of every triple (needs >= 40 triples for 2^-40)
                if len >= 40 {
                    let ms = (0..len).flat_map(|l| [(vec![l, 0], TreeMut::FlipBit(0)), (vec![l, 1], TreeMut::FlipBit(0))]).collect();
                    out.push(one("HaAND: both hash bits flipped for all triples", MsgMut::Multi(ms), wl(&LAAND), false));
                }
            }
            "flaand" => {
                let w = wl(&LAAND);
                for l in indices(len, all_idx, salt) {
                    out.push(one("LaAND: e bit altered", tm(vec![l, 0], TreeMut::FlipBit(0)), w.clone(), false));
                }
                if len >= 40 {
                    let ms = (0..len).map(|l| (vec![l, 1], TreeMut::FlipBit(17))).collect();
                    out.push(one("LaAND: u altered in the same bit for all triples", MsgMut::Multi(ms), w.clone(), false));
                }
                if n >= 3 {
                    let mut e = one("broadcast equivocation: flaand e", tm(vec![0, 0], TreeMut::FlipBit(0)), w, false);
                    e.victims = honest.clone();
                    // an equivocation must be noticed in the echo round itself
                    e.whitelist = wl(&[m.label.as_str()]);
                    last_too(&mut out, &e, len, vec![0], TreeMut::FlipBit(0));
                    out.push(e);
                }
            }
            "flaand comm" => {
                let w = wl(&["flaand comm", "flaand hash"]);
                for l in indices(len, all_idx, salt) {
                    out.push(one("LaAND: commitment altered", tm(vec![l], TreeMut::FlipBit(4)), w.clone(), false));
                }
                if n >= 3 {
                    let mut e = one("broadcast equivocation: flaand comm", tm(vec![0], TreeMut::FlipBit(0)), w, false);
                    e.victims = honest.clone();
                    // an equivocation must be noticed in the echo round itself
                    e.whitelist = wl(&[m.label.as_str()]);
                    last_too(&mut out, &e, len, vec![], TreeMut::FlipBit(0));
                    out.push(e);
                }
            }
            "flaand hash" => {
                let w = wl(&["flaand hash"]);
                for l in indices(len, all_idx, salt) {
                    out.push(one("LaAND: check value altered", tm(vec![l], TreeMut::FlipBit(7)), w.clone(), false));
                }
                if len > 1 {
                    out.push(one("LaAND: same bit of two check values altered", MsgMut::Multi(vec![(vec![0], TreeMut::FlipBit(7)), (vec![len - 1], TreeMut::FlipBit(7))]), w.clone(), false));
                }
                if n >= 3 {
                    let mut e = one("broadcast equivocation: flaand hash", tm(vec![0], TreeMut::FlipBit(0)), w, false);
                    e.victims = honest.clone();
                    // an equivocation must be noticed in the echo round itself
                    e.whitelist = wl(&[m.label.as_str()]);
                    last_too(&mut out, &e, len, vec![], TreeMut::FlipBit(0));
                    out.push(e);
                }
            }
            "dvalue" => {
                let w = wl(&["dvalue"]);
                for j in indices(len, all_idx, salt) {
                    for mm in 0..4 {
                        out.push(one("bucket: d-value bit altered", tm(vec![j, 0, mm], TreeMut::FlipBit(0)), w.clone(), false));
                        out.push(one("bucket: d-value MAC altered", tm(vec![j, 1, mm], TreeMut::FlipBit(11)), w.clone(), false));
                    }
                    // two alterations inside one bucket that would cancel in an aggregated check
                    for (a, b) in [(0usize, 1usize), (1, 3), (0, 3)] {
                        out.push(one("bucket: two d-value bits of one bucket altered", MsgMut::Multi(vec![(vec![j, 0, a], TreeMut::FlipBit(0)), (vec![j, 0, b], TreeMut::FlipBit(0))]), w.clone(), false));
                        out.push(one("bucket: same MAC bit of two d-values of one bucket altered", MsgMut::Multi(vec![(vec![j, 1, a], TreeMut::FlipBit(9)), (vec![j, 1, b], TreeMut::FlipBit(9))]), w.clone(), false));
                    }
                    out.push(one("bucket: all d-value bits of one bucket altered", MsgMut::Multi((0..4).map(|mm| (vec![j, 0, mm], TreeMut::FlipBit(0))).collect()), w.clone(), false));
                    out.push(one("bucket: d-value vectors emptied", MsgMut::Multi(vec![(vec![j, 0], TreeMut::LenZero), (vec![j, 1], TreeMut::LenZero)]), w.clone(), false));
                    out.push(one("bucket: d-value vectors shortened", MsgMut::Multi(vec![(vec![j, 0], TreeMut::LenMinus1), (vec![j, 1], TreeMut::LenMinus1)]), w.clone(), false));
                }
            }
            "faand" => {
                let w = wl(&["faand"]);
                for j in indices(len, all_idx, salt) {
                    out.push(one("Beaver: d altered", tm(vec![j, 0], TreeMut::FlipBit(0)), w.clone(), false));
                    out.push(one("Beaver: e altered", tm(vec![j, 1], TreeMut::FlipBit(0)), w.clone(), false));
                    out.push(one("Beaver: d MAC altered", tm(vec![j, 2], TreeMut::FlipBit(100)), w.clone(), false));
                    out.push(one("Beaver: e MAC altered", tm(vec![j, 3], TreeMut::FlipBit(1)), w.clone(), false));
                    out.push(one("Beaver: d and e both altered", MsgMut::Multi(vec![(vec![j, 0], TreeMut::FlipBit(0)), (vec![j, 1], TreeMut::FlipBit(0))]), w.clone(), false));
                    out.push(one("Beaver: same bit of d MAC and e MAC altered", MsgMut::Multi(vec![(vec![j, 2], TreeMut::FlipBit(5)), (vec![j, 3], TreeMut::FlipBit(5))]), w.clone(), false));
                    if j + 1 < len {
                        out.push(one("Beaver: d altered in two triples", MsgMut::Multi(vec![(vec![j, 0], TreeMut::FlipBit(0)), (vec![j + 1, 0], TreeMut::FlipBit(0))]), w.clone(), false));
                    }
                }
            }
            _ => {}
        }
    }
    // consistent lies (taps)
    let tap = |row: &str, site: &str, idx: Option<usize>, action: TapAction, label: &str, occ: usize, whitelist: Vec<String>| Entry {
        row: row.to_string(),
        attack: AttackCase { taps: vec![TapSpec { site: site.into(), idx, action }], ..AttackCase::honest(base.clone(), corrupt) },
        victims: honest.clone(),
        anchor: Anchor::FirstRecv { label: label.into(), occ },
        whitelist,
        ot_group: false,
    };
    if only_equivocation {
        out.retain(|e| e.row.starts_with("broadcast equivocation"));
        return Ok(out);
    }
    out.push(tap("coin toss: other pairwise seed opened than committed (tap)", "rng_pair_seed", None, TapAction::XorBytes(vec![0x5a]), "RNG ver", 0, wl(&["RNG ver"])));
    out.push(tap("coin toss: other multi-party seed opened than committed (tap)", "rng_multi_seed", None, TapAction::XorBytes(vec![0xa5]), "RNG ver", 1, wl(&["RNG ver"])));
    for j in indices(8, all_idx, salt) {
        out.push(tap("bucket: own d-value share altered, MAC of the true value (tap)", "dvalue_share", Some(j * 8), TapAction::Flip, "dvalue", 0, wl(&["dvalue"])));
        out.push(tap("Beaver: own d share altered (tap)", "beaver_d", Some(j), TapAction::Flip, "faand", 0, wl(&["faand"])));
        out.push(tap("Beaver: own e share altered (tap)", "beaver_e", Some(j), TapAction::Flip, "faand", 0, wl(&["faand"])));
    }
    for r in indices(40, all_idx, salt) {
        // the lie is visible to the victim under its own key: it must abort before it opens d_b
        out.push(tap("aShare: committed and opened check bit flipped, MACs intact (tap)", "fashare_dm", Some(r), TapAction::Flip, "fashare ver", 0, wl(&["fashare ver"])));
    }
    // two (and four) committed lies in one aShare call: they would cancel in a check aggregated over the rounds
    for set in [vec![0usize, 1], vec![3, 39], vec![5 + salt % 30, 6 + salt % 30], vec![0, 1, 2, 3]] {
        let mut e = tap("aShare: committed check bit flipped in several rounds (tap)", "fashare_dm", Some(set[0]), TapAction::Flip, "fashare ver", 0, wl(&["fashare ver"]));
        e.attack.taps = set.iter().map(|r| TapSpec { site: "fashare_dm".into(), idx: Some(*r), action: TapAction::Flip }).collect();
        out.push(e);
    }
    for (a, b) in [(0usize, 1usize), (8, 9), (1, 3)] {
        // own d-value shares: two of one bucket (indices j*8+m) / one in each of two buckets
        let mut e = tap("bucket: two own d-value shares altered (tap)", "dvalue_share", Some(a), TapAction::Flip, "dvalue", 0, wl(&["dvalue"]));
        e.attack.taps = [a, b].iter().map(|i| TapSpec { site: "dvalue_share".into(), idx: Some(*i), action: TapAction::Flip }).collect();
        out.push(e);
        let mut e = tap("Beaver: own d shares of two triples altered (tap)", "beaver_d", Some(a), TapAction::Flip, "faand", 0, wl(&["faand"]));
        e.attack.taps = [a % 8, b % 8].iter().map(|i| TapSpec { site: "beaver_d".into(), idx: Some(*i), action: TapAction::Flip }).collect();
        out.push(e);
    }
    // rushing cheater: waits for the honest openings of a round and answers with their XOR (n = 2:
    // reflects the victim's opening); the commitments it sent before bind it to another value
    // (the leaky-AND check values XOR to zero in an honest run, so reflecting them changes nothing:
    // that round is attacked in C02 together with a wrong triple)
    for (label, occs, round) in [("RNG ver", vec![0usize, 1], vec!["RNG ver"]), ("fashare ver", vec![0], ASHARE.to_vec()), ("fashare di_bi", vec![0], ASHARE.to_vec())] {
        for occ in occs {
            if !tmpl.res.msgs.iter().any(|m| m.from == corrupt && m.label == label && m.label_occ == occ) {
                continue;
            }
            out.push(Entry {
                row: format!("rushing: {label} answered with the XOR / reflection of the honest openings"),
                attack: AttackCase { rush: vec![crate::adv::RushSpec { label: label.into(), occ: Some(occ) }], ..AttackCase::honest(base.clone(), corrupt) },
                victims: honest.clone(),
                anchor: Anchor::Tampered,
                whitelist: wl(&round),
                ot_group: false,
            });
        }
    }
    // a commitment round and its opening round(s) both reflected: the cheater's contribution would
    // be a copy of the victim's, unless commitments are bound to the committing party
    if n == 2 {
        let mut sets: Vec<(Vec<(&str, Option<usize>)>, Vec<&str>)> = vec![];
        for occ in [0usize, 1] {
            sets.push((vec![("RNG comm", Some(occ)), ("RNG ver", Some(occ))], vec!["RNG comm", "RNG ver"]));
        }
        sets.push((vec![("fashare comm", Some(0)), ("fashare ver", Some(0)), ("fashare di_bi", Some(0))], ASHARE.to_vec()));
        sets.push((vec![("fashare comm", Some(0)), ("fashare ver", Some(0))], ASHARE.to_vec()));
        for (rush, round) in sets {
            if !rush.iter().all(|(l, o)| tmpl.res.msgs.iter().any(|m| m.from == corrupt && m.label == *l && Some(m.label_occ) == *o)) {
                continue;
            }
            out.push(Entry {
                row: format!("rushing: {} reflected", rush.iter().map(|(l, _)| *l).collect::<Vec<_>>().join(" + ")),
                attack: AttackCase { rush: rush.iter().map(|(l, o)| crate::adv::RushSpec { label: l.to_string(), occ: *o }).collect(), ..AttackCase::honest(base.clone(), corrupt) },
                victims: honest.clone(),
                anchor: Anchor::Tampered,
                whitelist: wl(&round),
                ot_group: false,
            });
        }
    }
    // wrong leaky AND triple (both bits of one haand pair flipped) hidden behind a reflected
    // commitment round and a reflected opening round (n = 2: H_0 xor H_0 = 0 passes the check
    // unless the commitment is bound to the committing party)
    if n == 2 && tmpl.res.msgs.iter().any(|m| m.from == corrupt && m.label == "flaand comm") {
        for occ in [None, Some(0)] {
            out.push(Entry {
                row: "rushing: wrong leaky AND triple, commitment and check value both reflected".into(),
                attack: AttackCase {
                    faults: vec![Fault { target: Target::Label { label: "haand".into(), occ, to: None }, mutation: MsgMut::Multi(vec![(vec![0, 0], TreeMut::FlipBit(0)), (vec![0, 1], TreeMut::FlipBit(0))]) }],
                    rush: vec![crate::adv::RushSpec { label: "flaand comm".into(), occ: None }, crate::adv::RushSpec { label: "flaand hash".into(), occ: None }],
                    ..AttackCase::honest(base.clone(), corrupt)
                },
                victims: honest.clone(),
                anchor: Anchor::Tampered,
                whitelist: wl(&LAAND),
                ot_group: false,
            });
        }
    }
    // aBit: the cheater uses other choice bits in the OT extension towards one party than the bit
    // string it runs the aBit test with (for n=3: other bits than towards the third party).
    // Index sets: single positions and pairs at the strides at which word/half-word oriented
    // code could alias coefficients (1, 63, 64, 65, 127, 128).
    let victim = honest[honest.len() - 1];
    let mut sets: Vec<Vec<usize>> = vec![vec![0], vec![3 + salt % 60], vec![70], vec![131]];
    for base_idx in [3usize, 64 + salt % 60] {
        for d in [1usize, 63, 64, 65, 127, 128] {
            sets.push(vec![base_idx, base_idx + d]);
        }
    }
    for set in sets {
        let taps = set.iter().map(|j| TapSpec { site: "ot_choice".into(), idx: Some(victim * 1_000_000 + j), action: TapAction::Flip }).collect();
        out.push(Entry {
            row: format!("aBit: other OT choice bits towards one party at {} position(s), stride {}", set.len(), if set.len() == 2 { (set[1] - set[0]).to_string() } else { "-".into() }),
            attack: AttackCase { taps, ..AttackCase::honest(base.clone(), corrupt) },
            victims: vec![victim],
            anchor: Anchor::FirstRecv { label: "fabitn".into(), occ: 0 },
            whitelist: wl(&["fabitn"]),
            ot_group: false,
        });
    }
    Ok(out)
}

// ---------------------------------------------------------------------------------------------
// (b) commit-before-reveal over honest histories
// ---------------------------------------------------------------------------------------------

#[derive(Clone, Debug, Serialize, Deserialize)]
pub struct HistCase {
    pub base: MpcCase,
}

const COMMIT_REVEAL: [(&str, &[&str]); 3] = [("RNG comm", &["RNG ver"]), ("fashare comm", &["fashare ver", "fashare di_bi"]), ("flaand comm", &["flaand hash"])];

/// For every party i, every commit/reveal pair and every round instance: i starts sending the
/// reveal only after it has received the commit of that round from every other party.
pub fn commit_before_reveal(n: usize, res: &RunResult<Vec<bool>>) -> Result<usize, String> {
    let msgs: &[MsgRec] = &res.msgs;
    let mut delayed = 0usize;
    for i in 0..n {
        for (commit, reveals) in COMMIT_REVEAL {
            for reveal in reveals.iter() {
                // send-start events of the reveal by i, per recipient and occurrence
                let mut occ_to = vec![0usize; n];
                for e in res.events.iter().filter(|e| e.party == i && e.kind == EvKind::SendStart && e.label == *reveal) {
                    let k = occ_to[e.peer];
                    occ_to[e.peer] += 1;
                    // commit of round k from every j != i must have been received before
                    for j in (0..n).filter(|j| *j != i) {
                        let cm = msgs.iter().find(|m| m.from == j && m.to == i && m.label == commit && m.label_occ == k);
                        match cm.and_then(|m| m.seq_recv) {
                            Some(s) if s < e.seq => {
                                // non-trivial instance: j's commit reached i after i had sent its own commit
                                let own = msgs.iter().find(|m| m.from == i && m.to == j && m.label == commit && m.label_occ == k);
                                if own.map(|o| o.seq_sent < s).unwrap_or(false) {
                                    delayed += 1;
                                }
                            }
                            other => {
                                return Err(format!("party {i} starts sending {reveal:?} (round {k}) to {} at event {} but the commitment {commit:?} of party {j} for that round was received at {:?}", e.peer, e.seq, other));
                            }
                        }
                    }
                }
            }
        }
    }
    Ok(delayed)
}

pub fn test_hist(c: &HistCase) -> Result<CaseInfo, Fail> {
    let run = run_mpc(&c.base, Adversary::default(), &ExecCfg { record_probes: false, ..Default::default() });
    check_honest_result(&c.base, &run.res).map_err(|e| Fail::new("C04|hist|wrong-result", e))?;
    let delayed = commit_before_reveal(c.base.n(), &run.res).map_err(|e| Fail::new("C04|reveal-before-commit", e))?;
    Ok(CaseInfo {
        nontrivial: (delayed > 0).then(|| hash_of(&(run.res.trace_hash, delayed))),
        classes: vec![format!("hist:n={}", c.base.n()), format!("hist:sched={}", c.base.sched.kind())],
        sample: Some(json!({"sub": "commit-before-reveal", "n": c.base.n(), "sched": c.base.sched.kind(), "cap": c.base.cap, "delayed_commit_instances": delayed})),
        ..Default::default()
    })
}

fn gen_hist() -> impl Strategy<Value = HistCase> {
    (2usize..=3).prop_flat_map(|n| {
        let sched = prop_oneof![3 => (0..n as u8).prop_map(SchedSpec::Starve), 3 => any::<u64>().prop_map(SchedSpec::LazyDelivery), 2 => gen_sched(n, true)];
        (Just(n), sched, prop_oneof![Just(0usize), Just(1), Just(2)], 0..n).prop_map(|(n, sched, cap, p_eval)| HistCase {
            base: MpcCase { sched, cap, ..MpcCase::simple(crate::checks::dump::and_circ(n), vec![vec![true]; n], p_eval, (0..n).collect()) },
        })
    })
}

pub fn run(tier: Tier, seed: u64) -> i32 {
    let ctx = Ctx::new("C04", tier, seed, "fault_enumeration");
    ctx.set_rule("(a) systematic enumeration of a hand-derived must-detect table over every verification step of preprocessing (coin-toss commitment/opening incl. consistent lie via tap, base-OT points, KOS correlation column and check values, aBit test bits/MACs, aShare commitments / check bit / MACs / opened key sum incl. committed lie via tap, HaAND/LaAND e/u/commitment/check value, bucket d-values and MACs and vector lengths, Beaver d/e and MACs incl. taps, broadcast equivocation for n=3 and n=4, at the first and the last element of each broadcast vector, incl. 1500-element vectors) x every index of the checked vector (n=2) or first/last/rotating index (n=3) x single-recipient, all-recipient and every-batch variants; oracle: the honest recipient returns Err and starts no channel operation outside the round of the altered message. (b) proptest over honest histories under starving / lazy / random schedules: no party starts sending a reveal before it received every other party's commitment of that round. (c) challenge predictor (see extra.predictor). non-trivial = decided table entry / history with a commitment that arrived after the own commitment was sent");
    ctx.assume("every table row is detected by the correct protocol with probability >= 1-2^-40 independent of secrets; single-index tampering whose consumption depends on a secret bit is excluded (covered by the generic oracle of C02/C08)");
    // (a)
    let mut all = vec![];
    let cfgs: Vec<(usize, usize, usize)> = tier.pick(vec![(2, 0, 0), (2, 1, 0), (3, 1, 0)], vec![(2, 0, 0), (2, 1, 0), (2, 0, 1), (3, 0, 0), (3, 1, 0), (3, 2, 1)]);
    for (i, (n, corrupt, p_eval)) in cfgs.into_iter().enumerate() {
        let inputs = (0..n).map(|p| vec![(seed as usize + p + i) % 2 == 0]).collect();
        let base = MpcCase::simple(circ8(n), inputs, p_eval, (0..n).collect());
        let all_idx = tier == Tier::Thorough || (n == 2 && i == (seed as usize) % 2);
        match entries(&base, corrupt, all_idx, seed as usize + i) {
            Ok(e) => all.extend(e),
            Err(e) => {
                ctx.infra(e);
                return ctx.finish();
            }
        }
    }
    // n = 4: broadcast equivocation by the highest-index party (every party in thorough)
    for corrupt in tier.pick(vec![3usize], vec![0, 1, 2, 3]) {
        let base = MpcCase::simple(circ8(4), (0..4).map(|p| vec![(seed as usize + p) % 2 == 1]).collect(), 0, vec![0, 1, 2, 3]);
        match entries_filtered(&base, corrupt, false, seed as usize, true) {
            Ok(e) => all.extend(e),
            Err(e) => {
                ctx.infra(e);
                return ctx.finish();
            }
        }
    }
    // n = 3 with 300 AND gates: the leaky-AND broadcast vectors have 1500 elements
    {
        let corrupt = 1 + (seed as usize) % 2;
        let base = MpcCase::simple(circ_ands(3, 300), vec![vec![true], vec![false], vec![true]], 0, vec![0, 1, 2]);
        match entries_filtered(&base, corrupt, false, seed as usize, true) {
            Ok(e) => all.extend(e.into_iter().filter(|e| e.row.contains("flaand"))),
            Err(e) => {
                ctx.infra(e);
                return ctx.finish();
            }
        }
    }
    ctx.extra("table_entries", json!(all.len()));
    enumerate(&ctx, &all, |e| test_entry("C04", e));
    // (b)
    if !ctx.stopped() {
        prop_search(&ctx, "hist", tier.pick(120, 6000), gen_hist, test_hist);
    }
    // (c)
    if !ctx.stopped() {
        crate::checks::c04c::run_predictor(&ctx, tier, seed);
    }
    ctx.finish()
}

pub fn replay(path: &str) -> i32 {
    let text = std::fs::read_to_string(path).unwrap_or_default();
    if text.contains("\"row\"") {
        crate::fw::replay_case::<Entry, _>("C04", path, 3, |e| test_entry("C04", e))
    } else if text.contains("\"predictor\"") {
        crate::fw::replay_case::<crate::checks::c04c::PredCase, _>("C04", path, 2, crate::checks::c04c::test_pred)
    } else {
        crate::fw::replay_case::<HistCase, _>("C04", path, 3, test_hist)
    }
}
