//! C17 - server core: leader concurrency limit is respected and permits are never leaked.
use serde::{Deserialize, Serialize};
use serde_json::json;

use crate::fw::{CaseInfo, Ctx, Fail, Tier, hash_of};
use crate::sim::sched::Mix;
use crate::srv::batch::{Batch, BatchObs, explore_batch_blocking};
use crate::srv::shard::{UnitResult, run_parent, run_worker, worker_id};
use crate::srv::{Prog, RpcKind, SrvConfig};

pub type Case = Batch;

#[derive(Clone, Debug, Serialize, Deserialize)]
pub struct Unit {
    pub seed: u64,
    pub count: usize,
    /// inject a single RPC failure in every case of this unit
    pub with_failure: bool,
    /// cancel every party of one session at a generated step
    #[serde(default)]
    pub with_cancel: bool,
}

pub fn test_case(b: &Case) -> Result<CaseInfo, Fail> {
    let obs: BatchObs = explore_batch_blocking(b);
    let n = b.n;
    for (si, s) in obs.sessions.iter().enumerate() {
        if let Some(p) = s.actor_panicked.iter().position(|x| *x) {
            return Err(Fail::new("C17|actor-panic", format!("session {si}: state machine of party {p} panicked")));
        }
    }
    // (1) overlap of [first run sent .. leader's last activity] per leader <= concurrency
    for leader in 0..n {
        let mut iv: Vec<(u64, u64, usize)> = obs.sessions.iter().enumerate().filter(|(si, _)| b.sessions[*si].leader == leader).filter_map(|(si, s)| s.run_issued.map(|r| (r, s.leader_last.max(r), si))).collect();
        iv.sort();
        for (start, _, si) in &iv {
            let overlapping: Vec<usize> = iv.iter().filter(|(s2, e2, _)| *s2 <= *start && *start <= *e2).map(|x| x.2).collect();
            if overlapping.len() > b.concurrency {
                return Err(Fail::new("C17|concurrency-exceeded", format!("party {leader} runs sessions {overlapping:?} as leader at the same time (logical time {start}, session {si} starting), configured concurrency {}", b.concurrency)));
            }
        }
    }
    let failure = b.fail.is_some() && obs.sessions.iter().any(|s| s.failed_rpc_fired);
    if let Some((cs, _)) = b.cancel {
        // (4) a whole session cancelled: once every cancel returned Ok, its state machines have stopped,
        // every destination got at most one notification, the other sessions are undisturbed and, when
        // everything has ended, the whole budget is back
        let s = &obs.sessions[cs];
        let all_ok = s.cancels.iter().all(|c| matches!(c, Some(Ok(()))));
        let mut undecided = false;
        if all_ok {
            if let Some(p) = s.actor_finished.iter().position(|x| !*x) {
                return Err(Fail::new("C17|cancelled-but-running", format!("session {cs}: every cancel returned Ok but the state machine of party {p} is still running (permits {:?})", obs.permits)));
            }
            for p in 0..n {
                let k = s.outputs.iter().filter(|o| o.0 == p).count();
                if k > 1 {
                    return Err(Fail::new("C17|cancel-second-notification", format!("session {cs}: party {p}'s destination received {k} notifications: {:?}", s.outputs.iter().filter(|o| o.0 == p).map(|o| &o.1).collect::<Vec<_>>())));
                }
            }
        } else {
            undecided = true;
        }
        if s.inflight_calls != 0 {
            // the cancelled parties wait for each other's answers inside cancel() (a real transport ends
            // this with its timeout); whatever the leader holds until then also delays its other policies
            return Ok(CaseInfo { classes: vec!["cancelled-session".into(), "cancel-waits-for-calls-in-flight".into()], undecided: true, ..Default::default() });
        }
        for (si, s2) in obs.sessions.iter().enumerate() {
            if si == cs {
                continue;
            }
            let cfg = &b.sessions[si];
            let want = cfg.expected();
            for p in 0..n {
                let outs: Vec<_> = s2.outputs.iter().filter(|o| o.0 == p).collect();
                if cfg.outputs[p] && !matches!(outs.as_slice(), [(_, Ok(l), _)] if *l == want) {
                    return Err(Fail::new("C17|other-session-disturbed", format!("session {si} (not cancelled) party {p}: expected exactly one result {want}, got {:?}", outs.iter().map(|o| &o.1).collect::<Vec<_>>())));
                }
            }
        }
        // a policy that was cancelled at every party must not keep a permit once nothing can happen any
        // more (exact quiescence), whether or not the cancel calls have returned
        // (a session with coordination calls still in flight is not judged: its parties wait for each
        // other's answers, which a real transport ends with a timeout)
        let others_ended = obs.sessions.iter().enumerate().all(|(si, s)| si == cs || s.actor_finished.iter().all(|x| *x));
        if others_ended && s.inflight_calls == 0 && obs.permits.iter().any(|p| *p != b.concurrency) {
            return Err(Fail::new(
                "C17|permit-leak-after-cancel",
                format!("session {cs} was cancelled at every party and all other policies have ended, but at quiescence the permits are {:?} of {} (cancel results {:?})", obs.permits, b.concurrency, s.cancels),
            ));
        }
        return Ok(CaseInfo {
            nontrivial: all_ok.then(|| hash_of(&serde_json::to_string(b).unwrap())),
            classes: vec![format!("sessions={}", b.sessions.len()), "cancelled-session".into(), if all_ok { "all-cancels-ok".into() } else { "some-cancel-not-ok".into() }],
            sample: Some(json!({"sessions": b.sessions.len(), "concurrency": b.concurrency, "cancel": b.cancel, "cancel_results": s.cancels, "permits_end": obs.permits})),
            undecided,
            ..Default::default()
        });
    }
    if !failure {
        // (2) undisturbed batch: everything ends, all permits back, exactly one correct result per destination
        for (si, s) in obs.sessions.iter().enumerate() {
            let cfg = &b.sessions[si];
            let want = cfg.expected();
            for p in 0..n {
                let outs: Vec<_> = s.outputs.iter().filter(|o| o.0 == p).collect();
                if cfg.outputs[p] {
                    match outs.as_slice() {
                        [(_, Ok(l), _)] if *l == want => {}
                        other => return Err(Fail::new("C17|wrong-output", format!("session {si} party {p}: expected exactly one result {want}, got {:?}", other.iter().map(|o| &o.1).collect::<Vec<_>>()))),
                    }
                }
            }
            if let Some(p) = s.actor_finished.iter().position(|x| !*x) {
                return Err(Fail::new("C17|actor-alive", format!("session {si}: state machine of party {p} never stopped (permits {:?})", obs.permits)));
            }
        }
        if obs.permits.iter().any(|p| *p != b.concurrency) {
            return Err(Fail::new("C17|permit-leak", format!("all policies ended but the permits are {:?} of {}", obs.permits, b.concurrency)));
        }
    } else {
        // (3) failed RPC: the policy ends at the caller, <= 1 notification (an error), permit returned
        let (si, kind, from, _to) = b.fail.unwrap();
        let s = &obs.sessions[si];
        let cfg = &b.sessions[si];
        let kname = format!("{kind:?}").to_lowercase();
        if !s.actor_finished[from] {
            return Err(Fail::new(format!("C17|caller-lingers|{kname}"), format!("session {si}: the {kname} call of party {from} failed but its state machine keeps running (permits {:?}, destination {})", obs.permits, cfg.outputs[from])));
        }
        let outs: Vec<_> = s.outputs.iter().filter(|o| o.0 == from).collect();
        if outs.len() > 1 {
            return Err(Fail::new(format!("C17|second-notification|{kname}"), format!("session {si}: after the failed {kname} call party {from}'s destination received {:?}", outs.iter().map(|o| &o.1).collect::<Vec<_>>())));
        }
        if cfg.outputs[from] && kind != RpcKind::Validate {
            // validate failures are reported through the schedule call itself
            match outs.as_slice() {
                [(_, Err(_), _)] => {}
                other => return Err(Fail::new(format!("C17|no-error-notification|{kname}"), format!("session {si}: after the failed {kname} call party {from}'s destination received {:?}", other.iter().map(|o| &o.1).collect::<Vec<_>>()))),
            }
        }
        if kind == RpcKind::Validate {
            match &s.schedule[from] {
                Some(Err(_)) => {}
                o => return Err(Fail::new("C17|validate-failure-not-reported", format!("session {si}: validate failed but schedule of party {from} returned {o:?}"))),
            }
        }
        // the caller's own budget must be complete once every session it leads has ended or failed
        let others_done = obs.sessions.iter().enumerate().all(|(sj, s2)| sj == si || b.sessions[sj].leader != from || s2.actor_finished[from]);
        if others_done && obs.permits[from] != b.concurrency {
            return Err(Fail::new(format!("C17|permit-leak-after-failure|{kname}"), format!("session {si}: after the failed {kname} call party {from} holds {} of {} permits", obs.permits[from], b.concurrency)));
        }
    }
    let leaders: std::collections::BTreeSet<usize> = b.sessions.iter().map(|s| s.leader).collect();
    let contended = (0..n).any(|p| b.sessions.iter().filter(|s| s.leader == p).count() > b.concurrency);
    Ok(CaseInfo {
        nontrivial: (b.sessions.len() >= 2 || failure).then(|| hash_of(&serde_json::to_string(b).unwrap())),
        classes: vec![format!("sessions={}", b.sessions.len()), format!("concurrency={}", b.concurrency), format!("leaders={}", leaders.len()), if contended { "contended".into() } else { "uncontended".into() }, if failure { format!("failure={:?}", b.fail.unwrap().1) } else { "no-failure".into() }],
        sample: Some(json!({"sessions": b.sessions.len(), "concurrency": b.concurrency, "leaders": b.sessions.iter().map(|s| s.leader).collect::<Vec<_>>(), "fail": b.fail, "permits_end": obs.permits, "min_permits_seen": obs.min_permits_seen, "steps": obs.steps})),
        ..Default::default()
    })
}

/// Fourth family: one policy, the leader is cancelled while its program is being compiled and the
/// follower is cancelled at a later point.  At exact quiescence with no coordination call in flight
/// the leader's budget must be complete.
pub fn test_two_cancels(c: &crate::checks::c13::Case) -> Result<CaseInfo, Fail> {
    let obs = crate::srv::explore::explore_blocking(&c.cfg, &c.plan);
    let leader = c.cfg.leader;
    if !obs.trigger_fired {
        return Ok(CaseInfo { classes: vec!["two-cancels:not-fired".into()], ..Default::default() });
    }
    if let Some(p) = obs.actor_panicked.iter().position(|x| *x) {
        return Err(Fail::new("C17|actor-panic", format!("two cancels: state machine of party {p} panicked")));
    }
    if obs.inflight_calls == 0 && obs.permits[leader] != c.cfg.concurrency {
        return Err(Fail::new(
            "C17|permit-leak-after-cancel",
            format!("the policy was cancelled at the leader (while compiling) and at the follower; at quiescence nothing is in flight but the leader holds {} of {} permits (cancel results {:?} / {:?})", obs.permits[leader], c.cfg.concurrency, obs.cancel.as_ref().map(|c| c.as_ref().map(|x| &x.0)), obs.cancel2),
        ));
    }
    Ok(CaseInfo {
        nontrivial: Some(hash_of(&serde_json::to_string(c).unwrap())),
        classes: vec!["two-cancels".into(), if obs.inflight_calls == 0 { "two-cancels:decided".into() } else { "two-cancels:calls-in-flight".into() }],
        sample: Some(json!({"two_cancels": {"leader": leader, "plan_cancel": c.plan.cancel, "plan_cancel2": c.plan.cancel2, "permits": obs.permits, "inflight_calls": obs.inflight_calls}})),
        undecided: obs.inflight_calls != 0,
        ..Default::default()
    })
}

/// Fifth family: one policy, a party is cancelled while its result notification is on its way to a
/// destination that is not instantaneous (the computation itself has ended).  Whatever becomes of
/// that cancel call, once nothing is in flight the budgets of all parties are complete.
pub fn test_cancel_at_delivery(c: &crate::checks::c13::Case) -> Result<CaseInfo, Fail> {
    let obs = crate::srv::explore::explore_blocking(&c.cfg, &c.plan);
    if !obs.trigger_fired {
        return Ok(CaseInfo { classes: vec!["cancel-at-delivery:not-fired".into()], ..Default::default() });
    }
    if let Some(p) = obs.actor_panicked.iter().position(|x| *x) {
        return Err(Fail::new("C17|actor-panic", format!("cancel at delivery: state machine of party {p} panicked")));
    }
    if obs.inflight_calls == 0 {
        if let Some(p) = (0..c.cfg.n()).find(|p| obs.permits[*p] != c.cfg.concurrency) {
            return Err(Fail::new(
                "C17|permit-leak-after-cancel|at-delivery",
                format!("party {p} (leader {}) was cancelled while its result notification was being delivered; the computation has ended and nothing is in flight, but party {p} holds {} of {} permits (cancel result {:?})", c.cfg.leader, obs.permits[p], c.cfg.concurrency, obs.cancel.as_ref().map(|c| c.as_ref().map(|x| &x.0))),
            ));
        }
    }
    Ok(CaseInfo {
        nontrivial: Some(hash_of(&serde_json::to_string(c).unwrap())),
        classes: vec!["cancel-at-delivery".into(), if obs.inflight_calls == 0 { "cancel-at-delivery:decided".into() } else { "cancel-at-delivery:calls-in-flight".into() }],
        sample: Some(json!({"cancel_at_delivery": {"leader": c.cfg.leader, "plan_cancel": c.plan.cancel, "permits": obs.permits, "inflight_calls": obs.inflight_calls}})),
        undecided: obs.inflight_calls != 0,
        ..Default::default()
    })
}

pub fn gen_batch(m: &mut Mix, with_failure: bool, max_sessions: usize, n: usize) -> Batch {
    let k = 1 + m.below(max_sessions);
    let concurrency = 1 + m.below(3);
    let mut sessions = vec![];
    for _ in 0..k {
        let leader = m.below(n);
        let consts_from: Vec<bool> = (0..n).map(|_| m.below(3) == 0).collect();
        sessions.push(SrvConfig {
            prog: Prog { n, consts_from, variant: m.below(3) as u8 },
            leader,
            outputs: (0..n).map(|_| m.below(3) != 0).collect(),
            inputs: (0..n).map(|_| m.next() as u8).collect(),
            consts: (0..n).map(|_| m.next() as u8).collect(),
            concurrency,
        });
    }
    let fail = if with_failure {
        let si = m.below(k);
        let s = &sessions[si];
        let leader = s.leader;
        let mut opts = vec![];
        for follower in (0..n).filter(|p| *p != leader) {
            opts.push((RpcKind::Validate, leader, follower));
            opts.push((RpcKind::Run, leader, follower));
        }
        for p in 0..n {
            if s.prog.consts_from[p] {
                for q in (0..n).filter(|q| *q != p) {
                    opts.push((RpcKind::Consts, p, q));
                }
            }
        }
        let (kind, from, to) = opts[m.below(opts.len())];
        Some((si, kind, from, to))
    } else {
        None
    };
    let script: Vec<u8> = (0..m.below(200)).map(|_| m.next() as u8).collect();
    Batch { n, concurrency, sessions, script, fail, cancel: None }
}

fn run_unit(u: &Unit, emit: &mut dyn FnMut(UnitResult)) {
    if u.count == 0 {
        // two-cancel family
        use crate::srv::explore::{Plan, When};
        for cfg in crate::checks::c13::configs(2, (u.seed % 3) as usize, u.seed, true) {
            let follower = 1 - cfg.leader;
            for k in 2..12usize {
                let case = crate::checks::c13::Case { cfg: cfg.clone(), plan: Plan { cancel: Some((When::WhileCompiling, cfg.leader)), cancel2: Some((When::Step(k), follower)), ..Default::default() } };
                match test_two_cancels(&case) {
                    Ok(i) => emit(UnitResult::Ok(i)),
                    Err(f) => emit(UnitResult::Fail(f, serde_json::to_value(&case).unwrap())),
                }
            }
            // cancel-at-delivery family: every party with a destination, a few coordination orders
            for target in 0..cfg.n() {
                for script in [vec![], vec![1usize, 1], vec![0, 1, 0, 1]] {
                    let mut cfg2 = cfg.clone();
                    cfg2.outputs = vec![true; cfg.n()];
                    let case = crate::checks::c13::Case { cfg: cfg2, plan: Plan { script, hold_outputs: true, cancel: Some((When::OutputInFlight, target)), ..Default::default() } };
                    match test_cancel_at_delivery(&case) {
                        Ok(i) => emit(UnitResult::Ok(i)),
                        Err(f) => emit(UnitResult::Fail(f, serde_json::to_value(&case).unwrap())),
                    }
                }
                // ... and immediately after every explorer action (in particular right after the
                // destination has answered, before the state machine has seen the task's Stop)
                let mut cfg2 = cfg.clone();
                cfg2.outputs = vec![true; cfg.n()];
                let base = crate::srv::explore::explore_blocking(&cfg2, &Plan { hold_outputs: true, ..Default::default() });
                for k in 0..base.branching.len() {
                    let case = crate::checks::c13::Case { cfg: cfg2.clone(), plan: Plan { hold_outputs: true, cancel: Some((When::AfterAction(k), target)), ..Default::default() } };
                    match test_cancel_at_delivery(&case) {
                        Ok(i) => emit(UnitResult::Ok(i)),
                        Err(f) => emit(UnitResult::Fail(f, serde_json::to_value(&case).unwrap())),
                    }
                }
            }
        }
        return;
    }
    let mut m = Mix(u.seed);
    for _ in 0..u.count {
        let n = if u.with_failure && u.seed % 2 == 1 { 3 } else { 2 };
        let mut b = gen_batch(&mut m, u.with_failure, if u.with_failure { if n == 3 { 2 } else { 3 } } else if u.with_cancel { 4 } else { 8 }, n);
        if u.with_cancel {
            b.cancel = Some((m.below(b.sessions.len()), m.below(14)));
        }
        match test_case(&b) {
            Ok(i) => emit(UnitResult::Ok(i)),
            Err(f) => emit(UnitResult::Fail(f, serde_json::to_value(&b).unwrap())),
        }
    }
}

pub fn units(tier: Tier, seed: u64) -> Vec<Unit> {
    let mut v = vec![];
    for k in 0..32u64 {
        v.push(Unit { seed: seed.wrapping_mul(7919).wrapping_add(k), count: tier.pick(4, 40), with_failure: false, with_cancel: false });
        v.push(Unit { seed: seed.wrapping_mul(104729).wrapping_add(k), count: tier.pick(8, 60), with_failure: true, with_cancel: false });
        v.push(Unit { seed: seed.wrapping_mul(1299709).wrapping_add(k), count: tier.pick(6, 50), with_failure: false, with_cancel: true });
        if k < 6 {
            v.push(Unit { seed: seed.wrapping_add(k), count: 0, with_failure: false, with_cancel: true });
        }
    }
    v
}

pub fn run(tier: Tier, seed: u64) -> i32 {
    if let Some((k, of)) = worker_id() {
        return run_worker(units(tier, seed), k, of, run_unit);
    }
    let ctx = Ctx::new("C17", tier, seed, "fault_enumeration");
    ctx.set_rule("generated batches (seeded SplitMix from VERIF_SEED): 1..8 two-party policies in flight at once sharing one semaphore per party, concurrency 1..3, mixed leaders, constants from none/some parties, destination present or absent, random interleaving of all sessions' schedule calls and coordination RPC deliveries (choice vector); second family: 1..3 two-party or 1..2 three-party policies with a failure injected into one validate / run / consts RPC (for three parties: towards one of the two peers only); oracle: (1) per party, the number of sessions it leads whose interval [first run sent, last MPC message sent / result notified by the leader] overlaps never exceeds the concurrency; (2) undisturbed batch: exactly one correct result per destination, every state machine stopped, every semaphore full at exact quiescence; (3) failed RPC: the caller's state machine has stopped, its destination received at most one notification and (run/consts) exactly one error, a failed validate is reported by the schedule call, and the caller's budget is complete; the callee side may linger; third family: 1..4 policies of which one is cancelled at every party at a generated step - (4) once every cancel returned Ok the session's state machines have stopped, no destination got a second notification, the other sessions still deliver their correct results and, when everything has ended, all permits are back; fourth family: one policy, the leader cancelled while compiling and the follower cancelled at a later point - with nothing in flight at quiescence the leader's budget is complete; fifth family: one policy, a party cancelled while its result notification is being delivered, or immediately after any explorer action of a run whose destinations answer late (e.g. right after the answer, before the state machine has seen the task's Stop) - once nothing is in flight every budget is complete, whatever becomes of the cancel call; non-trivial = batch with >= 2 sessions or a fired failure; distinct by hash of the batch");
    let n_units = units(tier, seed).len();
    ctx.extra("work_units", json!(n_units));
    run_parent(&ctx, "C17", n_units);
    ctx.finish()
}

pub fn replay(path: &str) -> i32 {
    let text = std::fs::read_to_string(path).unwrap_or_default();
    if (text.contains("\"OutputInFlight\"") || text.contains("\"AfterAction\"")) && text.contains("\"plan\"") && !text.contains("\"cancel2\": [") {
        return crate::fw::replay_case::<crate::checks::c13::Case, _>("C17", path, 3, test_cancel_at_delivery);
    }
    if text.contains("\"cancel2\"") && text.contains("\"plan\"") {
        return crate::fw::replay_case::<crate::checks::c13::Case, _>("C17", path, 3, test_two_cancels);
    }
    crate::fw::replay_case::<Case, _>("C17", path, 2, test_case)
}
