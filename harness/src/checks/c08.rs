//! C08 - hostile or vanishing peers cause an error return, never a panic or a hang.
use serde::{Deserialize, Serialize};
use serde_json::json;

use crate::adv::{AttackCase, Fault, TapAction, TapSpec, Target, panic_sig, run_attack, tampered_any};
use crate::checks::dump::and_circ;
use crate::fw::{CaseInfo, Ctx, Fail, Tier, enumerate, hash_of};
use crate::run::{Adversary, MpcCase, run_mpc};
use crate::sim::exec::{ExecCfg, Outcome};
use crate::trace::{check_codec, decode};
use crate::wire::{ByteMut, MsgMut, muts_for, paths};

#[derive(Clone, Debug, Serialize, Deserialize)]
pub struct Case {
    pub attack: AttackCase,
    /// label of the targeted message (for signatures / reporting)
    pub label: String,
    /// honest allocation peak of this configuration
    pub honest_peak: usize,
}

pub fn mut_class(m: &MsgMut) -> String {
    match m {
        MsgMut::Tree { path, m } => format!("tree:{:?}@depth{}", std::mem::discriminant(m), path.len()).replace("Discriminant", ""),
        MsgMut::Multi(_) => "multi".into(),
        MsgMut::Bytes(b) => format!("bytes:{}", format!("{b:?}").split(['(', ' ', '{']).next().unwrap_or("")),
        MsgMut::Drop => "drop".into(),
        MsgMut::Duplicate => "duplicate".into(),
    }
}

pub fn tree_mut_name(m: &MsgMut) -> String {
    match m {
        MsgMut::Tree { m, .. } => format!("{m:?}").split('(').next().unwrap_or("").to_string(),
        other => mut_class(other),
    }
}

pub fn byte_muts(len: usize) -> Vec<ByteMut> {
    let l = len as u32;
    vec![
        ByteMut::Empty,
        ByteMut::Truncate(1),
        ByteMut::Truncate(l / 2),
        ByteMut::Truncate(l.saturating_sub(1)),
        ByteMut::FlipBit(0),
        ByteMut::FlipBit(l * 4 + 3),
        ByteMut::RandomSameLen(11),
        ByteMut::Extend(8),
        ByteMut::LenPrefix { offset: 0, k: 40 },
        ByteMut::LenPrefix { offset: 0, k: 62 },
        ByteMut::LenPrefix { offset: 8, k: 33 },
        ByteMut::AllOnes,
        ByteMut::VecShrink(1),
        ByteMut::VecShrink(u32::MAX),
        ByteMut::VecGrow,
        ByteMut::ElemWordOnes { last: false, word: 0 },
        ByteMut::ElemWordOnes { last: false, word: 1 },
        ByteMut::ElemWordOnes { last: false, word: 2 },
        ByteMut::ElemWordOnes { last: true, word: 0 },
        ByteMut::ElemWordOnes { last: true, word: 1 },
    ]
}

pub fn configs(tier: Tier) -> Vec<(MpcCase, usize)> {
    let mut v = vec![];
    for corrupt in 0..2 {
        for p_eval in 0..2 {
            v.push((MpcCase::simple(and_circ(2), vec![vec![true], vec![true]], p_eval, vec![0, 1]), corrupt));
        }
    }
    let n3: Vec<(usize, usize)> = tier.pick(vec![(1, 0)], vec![(0, 0), (1, 0), (2, 0), (0, 1), (1, 1), (2, 2)]);
    for (corrupt, p_eval) in n3 {
        v.push((MpcCase::simple(and_circ(3), vec![vec![true], vec![false], vec![true]], p_eval, vec![0, 1, 2]), corrupt));
    }
    v
}

/// Enumerates the single-fault cases of one configuration from an honest template run.
pub fn enumerate_cases(base: &MpcCase, corrupt: usize, tree_cap: usize, full: bool) -> Result<Vec<Case>, String> {
    let tmpl = run_mpc(base, Adversary::default(), &ExecCfg { record_probes: false, ..Default::default() });
    // A message that no longer matches the harness' type grammar only gets the format-agnostic
    // byte-level mutators (coverage is reduced, no alarm is raised for it).
    if let Err(e) = check_codec(&tmpl.res.msgs) {
        eprintln!("note: wire grammar is stale for this tree ({e}); falling back to byte-level mutation for such messages");
    }
    if !tmpl.res.outcomes.iter().all(|o| o.is_ok()) {
        return Err(format!("template run failed: {:?}", tmpl.res.outcomes.iter().map(|o| o.class()).collect::<Vec<_>>()));
    }
    let honest_peak = tmpl.res.alloc_peak;
    let mut cases = vec![];
    let mine: Vec<_> = tmpl.res.msgs.iter().filter(|m| m.from == corrupt).collect();
    let n = base.n();
    let mk = |k: usize, label: &str, m: MsgMut| Case {
        attack: AttackCase { faults: vec![Fault { target: Target::SenderIdx(k), mutation: m }], ..AttackCase::honest(base.clone(), corrupt) },
        label: label.to_string(),
        honest_peak,
    };
    for m in &mine {
        // n=3 quick: only one of the two copies of a broadcast message gets the full treatment
        if !full && n > 2 && m.to != (corrupt + 1) % n {
            continue;
        }
        let k = m.sender_idx;
        for bm in byte_muts(m.wire.len()) {
            cases.push(mk(k, &m.label, MsgMut::Bytes(bm)));
        }
        cases.push(mk(k, &m.label, MsgMut::Drop));
        cases.push(mk(k, &m.label, MsgMut::Duplicate));
        if let Some(v) = decode(m) {
            for p in paths(&v, tree_cap) {
                let node = crate::wire::get(&v, &p).unwrap();
                for tm in muts_for(node) {
                    cases.push(mk(k, &m.label, MsgMut::Tree { path: p.clone(), m: tm }));
                }
            }
        }
    }
    // below the encryption: a corrupted garbler knows the row keys, so the plaintext of a garbled
    // row is attacker-chosen as well (every row of every gate, or one row only)
    if corrupt != base.p_eval {
        let mut acts = vec![];
        for k in 0..=n + 1 {
            acts.push(TapAction::RowMacs(k));
        }
        let plain_len = 9 + 16 * n + 16;
        for bm in byte_muts(plain_len) {
            acts.push(TapAction::Bytes(bm));
        }
        acts.push(TapAction::Bytes(ByteMut::LenPrefix { offset: 1, k: 40 }));
        acts.push(TapAction::Bytes(ByteMut::LenPrefix { offset: 1, k: 62 }));
        acts.push(TapAction::Bytes(ByteMut::LenPrefix { offset: 1, k: 1 }));
        acts.push(TapAction::XorBytes(vec![2]));
        for a in acts {
            cases.push(Case { attack: AttackCase { taps: vec![TapSpec { site: "garble_plain".into(), idx: None, action: a }], ..AttackCase::honest(base.clone(), corrupt) }, label: "garbled row plaintext".into(), honest_peak });
        }
    }
    // a committed string whose length the cheater chooses: the aShare bit/MAC string is altered
    // before it is committed to, so commitment and opening stay consistent (one round / all rounds)
    {
        let dm_len = 1 + 16 * (n - 1);
        let mut acts: Vec<TapAction> = byte_muts(dm_len).into_iter().map(TapAction::Bytes).collect();
        acts.push(TapAction::Bytes(ByteMut::Truncate(17)));
        for a in acts {
            for idx in [Some(0usize), None] {
                cases.push(Case { attack: AttackCase { taps: vec![TapSpec { site: "fashare_dm_vec".into(), idx, action: a.clone() }], ..AttackCase::honest(base.clone(), corrupt) }, label: "aShare committed string".into(), honest_peak });
            }
        }
    }
    for k in 0..=mine.len() {
        cases.push(Case {
            attack: AttackCase { crash_after: Some(k), ..AttackCase::honest(base.clone(), corrupt) },
            label: mine.get(k).map(|m| m.label.clone()).unwrap_or_else(|| "<end>".into()),
            honest_peak,
        });
    }
    Ok(cases)
}

pub fn test_case(case: &Case) -> Result<CaseInfo, Fail> {
    let run = run_attack(&case.attack, &ExecCfg { record_probes: false, step_budget: 400_000, slow_sends: false });
    let res = &run.res;
    let corrupt = case.attack.corrupt;
    let mclass = case.attack.faults.first().map(|f| tree_mut_name(&f.mutation)).unwrap_or_else(|| match case.attack.taps.first() {
        Some(t) => format!("plain:{}", format!("{:?}", t.action).split(['(', ' ', '{']).next().unwrap_or("")),
        None => "crash".into(),
    });
    let mut undecided = false;
    for p in case.attack.honest_parties() {
        match &res.outcomes[p] {
            Outcome::Ok(_) | Outcome::Err(_) => {}
            Outcome::Panic(m) => {
                return Err(Fail::new(format!("C08|panic|{}|{}", case.label, panic_sig(m)), format!("honest party {p} panicked: {m} (message {:?}, mutation {mclass}, corrupt party {corrupt}, p_eval {})", case.label, case.attack.base.p_eval)));
            }
            Outcome::Stalled(on) => {
                let all_terminated = on.iter().all(|q| !matches!(res.outcomes[*q], Outcome::Stalled(_) | Outcome::Budget));
                if all_terminated {
                    return Err(Fail::new(format!("C08|hang|{}", case.label), format!("honest party {p} waits on {on:?} although all of them have terminated")));
                }
                // waiting for a peer that is alive but silent: not covered by the property
                undecided = true;
            }
            Outcome::Budget => undecided = true,
            Outcome::Crashed => {}
        }
    }
    let delivered: usize = res.bytes_delivered.iter().sum();
    // serde caps every pre-allocation at 1 MiB; message types nest at most 3 sequence levels
    let bound = case.honest_peak + 64 * delivered + (4 << 20);
    if res.alloc_peak > bound {
        return Err(Fail::new(format!("C08|alloc|{}", case.label), format!("allocation peak {} exceeds honest peak {} + 64*{} delivered bytes + 4MiB", res.alloc_peak, case.honest_peak, delivered)));
    }
    let nontrivial = tampered_any(&res.msgs) && res.msgs.iter().any(|m| m.tampered && m.delivered) || case.attack.crash_after.is_some() || !case.attack.taps.is_empty() || matches!(case.attack.faults.first().map(|f| &f.mutation), Some(MsgMut::Drop));
    let outcome_class: Vec<&str> = case.attack.honest_parties().iter().map(|p| res.outcomes[*p].class()).collect();
    Ok(CaseInfo {
        nontrivial: nontrivial.then(|| hash_of(&serde_json::to_string(&case.attack).unwrap())),
        classes: vec![format!("mut={mclass}"), format!("label={}", case.label), format!("outcome={}", outcome_class.join("+")), format!("n={}", case.attack.base.n())],
        sample: Some(json!({"n": case.attack.base.n(), "corrupt": corrupt, "p_eval": case.attack.base.p_eval, "label": case.label, "fault": case.attack.faults, "taps": case.attack.taps, "crash_after": case.attack.crash_after, "outcomes": outcome_class})),
        undecided,
        ..Default::default()
    })
}

pub fn run(tier: Tier, seed: u64) -> i32 {
    let ctx = Ctx::new("C08", tier, seed, "fault_enumeration");
    ctx.set_rule("systematic enumeration: for every message index of the corrupted sender (n=2: both parties x both evaluator choices; n=3: sampled role assignments, all in thorough) x every byte-level mutator (empty, truncations, bit flips, random, extend, length-prefix := 2^k, all-ones, and for messages that look like n equal-sized elements: shrink / grow consistently, one 4-byte word of the first / last element := 0xffffffff) x every structure-aware mutator on the decoded value tree (leaf flips/sets/random, Option toggles, sequence length -1/+1/0/1 and end swaps at every nesting level; long sequences at first/middle/last element) x drop x duplicate, plus (corrupted garbler) the same byte-level mutators and every MAC-vector length 0..n+1 applied to the plaintext of its garbled rows before encryption (hook tap garble_plain), and the byte-level mutators applied to the aShare bit/MAC string before it is committed to (commitment and opening consistent; hook tap fashare_dm_vec), plus crash of the peer before each of its messages; oracle: every honest party ends in Ok or Err - a panic, a wait on peers that have all terminated, or an allocation peak above honest peak + 64 x delivered bytes + 4 MiB (serde caps each pre-allocation at 1 MiB; <=3 nested sequence levels) is a violation; non-trivial = the altered bytes differ from the original and were delivered (or drop / crash); distinct by hash of the fault description");
    ctx.assume("bounded time is bounded scheduler steps; CPU blow-ups inside one poll are only caught by the step budget (reported inconclusive)");
    ctx.assume("single corrupted party; the corrupted party otherwise runs the honest code");
    let mut all = vec![];
    for (base, corrupt) in configs(tier) {
        let full = tier == Tier::Thorough || base.n() == 2;
        match enumerate_cases(&base, corrupt, tier.pick(3, 6), full) {
            Ok(c) => all.extend(c),
            Err(e) => {
                ctx.infra(format!("template: {e}"));
                return ctx.finish();
            }
        }
    }
    // deterministic rotation so that different seeds start at different places (all cases are run anyway)
    let rot = (seed as usize) % all.len().max(1);
    all.rotate_left(rot);
    ctx.extra("enumerated_cases", json!(all.len()));
    enumerate(&ctx, &all, test_case);
    ctx.exhaustive.store(!ctx.stopped(), std::sync::atomic::Ordering::Relaxed);
    ctx.finish()
}

pub fn replay(path: &str) -> i32 {
    crate::fw::replay_case::<Case, _>("C08", path, 3, test_case)
}
