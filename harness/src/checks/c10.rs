//! C10 - preprocessing outputs satisfy the authenticated-share and AND-triple relations.
use proptest::prelude::*;
use rand::RngCore;
use serde::{Deserialize, Serialize};
use serde_json::json;

use polytune::verif::{self as pv, PShare};

use crate::fw::{CaseInfo, Ctx, Fail, Tier, hash_of, prop_search};
use crate::sim::exec::{ExecCfg, Outcome, Task, World, run_world};
use crate::sim::sched::{Mix, SchedSpec};

#[derive(Clone, Debug, Serialize, Deserialize)]
pub struct Case {
    pub n: usize,
    /// number of AND triples
    pub l: usize,
    /// number of base random shares from which alpha / beta are built
    pub base: usize,
    pub recipe_seed: u64,
    pub deltas: Vec<u128>,
    pub dealer: bool,
    /// trusted dealer only: this party flips the bit of its left (true) / right share of triple
    /// `idx` in what it submits, keeping the MACs (party, idx, left)
    #[serde(default)]
    pub cheat: Option<(usize, usize, bool)>,
    pub sched: SchedSpec,
}

#[derive(Clone, Debug, Default)]
struct PartyOut {
    delta: u128,
    base: Vec<PShare>,
    alpha_beta: Vec<(PShare, PShare)>,
    sigma: Vec<PShare>,
    coins_multi: [u8; 32],
    coins_pair: Vec<Option<[u8; 32]>>,
}

fn xor_share(a: &PShare, b: &PShare) -> PShare {
    (a.0 ^ b.0, a.1.iter().zip(b.1.iter()).map(|(x, y)| (x.0 ^ y.0, x.1 ^ y.1)).collect())
}

/// alpha/beta = XOR of 0..3 base shares chosen by a public recipe (same for all parties)
fn recipe(seed: u64, l: usize, base: usize) -> Vec<(Vec<usize>, Vec<usize>)> {
    let mut m = Mix(seed);
    (0..l)
        .map(|j| {
            let pick = |m: &mut Mix| -> Vec<usize> { (0..m.below(4)).map(|_| m.below(base)).collect() };
            let a = pick(&mut m);
            // alpha == beta and shared operands occur regularly
            let b = if j % 5 == 0 { a.clone() } else { pick(&mut m) };
            (a, b)
        })
        .collect()
}

fn build(base: &[PShare], idx: &[usize], n: usize) -> PShare {
    let mut s: PShare = (false, vec![(0, 0); n]);
    for i in idx {
        s = xor_share(&s, &base[*i]);
    }
    s
}

fn check_macs(name: &str, j: usize, outs: &[PartyOut], get: impl Fn(&PartyOut) -> &PShare) -> Result<(), Fail> {
    let n = outs.len();
    for a in 0..n {
        for b in 0..n {
            if a == b {
                continue;
            }
            let sa = get(&outs[a]);
            let sb = get(&outs[b]);
            let mac = sa.1[b].0;
            let key = sb.1[a].1;
            let want = key ^ if sa.0 { outs[b].delta } else { 0 };
            if mac != want {
                return Err(Fail::new(format!("C10|mac-relation|{name}"), format!("{name}[{j}]: MAC held by party {a} for party {b} is {mac:032x}, key ^ bit*delta = {want:032x} (n={n})")));
            }
        }
    }
    Ok(())
}

pub fn test_case(c: &Case) -> Result<CaseInfo, Fail> {
    let n = c.n;
    let endpoints = if c.dealer { n + 1 } else { n };
    let world = World::new(endpoints, usize::MAX);
    // trusted dealer: the order in which its sends to the parties complete is the scheduler's choice
    world.net.lock().unwrap().slow_sends = c.dealer;
    let rec = recipe(c.recipe_seed, c.l, c.base);
    let b = pv::bucket_size(c.l);
    let mut tasks: Vec<Option<Task<PartyOut>>> = vec![];
    for p in 0..n {
        let ch = world.channel(p);
        let c = c.clone();
        let rec = rec.clone();
        tasks.push(Some(Box::pin(async move {
            let mut out = PartyOut { delta: c.deltas[p], ..Default::default() };
            if c.dealer {
                // drive the dealer with the raw protocol messages of the engine through mpc_with_dealer is not
                // possible for arbitrary alpha/beta; instead speak the dealer protocol directly
                return dealer_client(&ch, p, n, &c, &rec).await;
            }
            let mut two = pv::shared_rng_pairwise(&ch, p, n).await?;
            let mut multi = pv::shared_rng(&ch, p, n).await?;
            out.base = pv::fashare(&ch, out.delta, p, n, c.base, &mut two, &mut multi).await?;
            out.alpha_beta = rec.iter().map(|(a, b)| (build(&out.base, a, n), build(&out.base, b, n))).collect();
            let abc = pv::fashare(&ch, out.delta, p, n, c.l * b * 3, &mut two, &mut multi).await?;
            out.sigma = pv::beaver_aand(&ch, out.delta, &out.alpha_beta, p, n, c.l, &mut multi, &abc).await?;
            multi.fill_bytes(&mut out.coins_multi);
            out.coins_pair = (0..n)
                .map(|k| {
                    let (a, bb) = if p < k { (p, k) } else { (k, p) };
                    two[a][bb].as_mut().map(|r| {
                        let mut x = [0u8; 32];
                        r.fill_bytes(&mut x);
                        x
                    })
                })
                .collect();
            Ok(out)
        })));
    }
    if c.dealer {
        let ch = world.channel(n);
        tasks.push(Some(Box::pin(async move { pv::fpre(&ch, n).await.map(|_| PartyOut::default()) })));
    }
    let mut sched = c.sched.build();
    let res = run_world(&world, tasks, sched.as_mut(), &ExecCfg { record_probes: false, ..Default::default() }, || {});
    let mut outs = vec![];
    if c.dealer && c.cheat.is_some() && (0..n).any(|p| !matches!(res.outcomes[p], Outcome::Ok(_))) {
        // the dealer refused the unauthenticated shares: nobody may panic, that is all
        if let Some(p) = (0..=n).find(|p| matches!(res.outcomes[*p], Outcome::Panic(_))) {
            return Err(Fail::new("C10|dealer-panic", format!("endpoint {p} panicked when party {:?} submitted unauthenticated shares: {}", c.cheat, crate::run::short(&res.outcomes[p]))));
        }
        return Ok(CaseInfo {
            nontrivial: Some(hash_of(&serde_json::to_string(c).unwrap())),
            classes: vec![format!("n={n}"), "dealer".into(), "dealer:cheater-refused".into()],
            sample: Some(json!({"n": n, "l": c.l, "dealer": true, "cheat": c.cheat, "refused": true})),
            ..Default::default()
        });
    }
    for p in 0..n {
        match &res.outcomes[p] {
            Outcome::Ok(o) => outs.push(o.clone()),
            o => return Err(Fail::new("C10|failed", format!("party {p} (n={n}, l={}, dealer={}): {}", c.l, c.dealer, crate::run::short(o)))),
        }
    }
    for (j, _) in outs[0].base.iter().enumerate() {
        check_macs("random share", j, &outs, |o| &o.base[j])?;
    }
    for j in 0..c.l {
        check_macs("AND share", j, &outs, |o| &o.sigma[j])?;
        let alpha = outs.iter().fold(false, |acc, o| acc ^ o.alpha_beta[j].0.0);
        let beta = outs.iter().fold(false, |acc, o| acc ^ o.alpha_beta[j].1.0);
        let sigma = outs.iter().fold(false, |acc, o| acc ^ o.sigma[j].0);
        if sigma != (alpha && beta) {
            return Err(Fail::new(if c.cheat.is_some() { "C10|dealer-accepted-unauthenticated-shares" } else { "C10|and-relation" }, format!("triple {j} of {}: XOR of sigma shares = {sigma}, authenticated alpha = {alpha}, beta = {beta} (n={n}, bucket size {b}, dealer={}, submitted with a flipped bit and the old MACs by {:?})", c.l, c.dealer, c.cheat)));
        }
    }
    if outs.iter().any(|o| o.sigma.len() != c.l || o.base.len() != c.base) {
        return Err(Fail::new("C10|length", "wrong number of shares returned"));
    }
    if !c.dealer {
        if outs.iter().any(|o| o.coins_multi != outs[0].coins_multi) {
            return Err(Fail::new("C10|coins-multi", "parties derive different multi-party shared coins"));
        }
        for a in 0..n {
            for bb in 0..n {
                if a != bb && outs[a].coins_pair[bb] != outs[bb].coins_pair[a] {
                    return Err(Fail::new("C10|coins-pair", format!("parties {a} and {bb} derive different pairwise coins")));
                }
                if a != bb && outs[a].coins_pair[bb].is_none() {
                    return Err(Fail::new("C10|coins-pair", "missing pairwise generator"));
                }
            }
        }
    }
    let distinct_ab = outs[0].alpha_beta.iter().any(|(a, b)| a != b);
    Ok(CaseInfo {
        nontrivial: (c.l >= 2 && distinct_ab).then(|| hash_of(&serde_json::to_string(c).unwrap())),
        classes: vec![format!("n={n}"), format!("bucket={b}"), if c.dealer { "dealer".into() } else { "distributed".into() }, format!("l_class={}", if c.l < 10 { "<10" } else if c.l < 1000 { "<1000" } else { ">=1000" })],
        sample: Some(json!({"n": n, "l": c.l, "base": c.base, "bucket": b, "dealer": c.dealer, "sched": c.sched.kind()})),
        ..Default::default()
    })
}

/// Speaks the trusted-dealer protocol for one party with the engine's own message formats
/// (through the generic channel), using arbitrary alpha/beta built from the dealer's random shares.
async fn dealer_client(ch: &crate::sim::net::SimChannel, p: usize, n: usize, c: &Case, rec: &[(Vec<usize>, Vec<usize>)]) -> Result<PartyOut, String> {
    use crate::wire::{Ty, Val, decode_msg, encode_msg};
    use polytune::channel::Channel;
    let e = |e: crate::sim::net::SimErr| e.0;
    let share_ty = Ty::Tup(vec![Ty::Bool, Ty::Seq(Box::new(Ty::Tup(vec![Ty::U128, Ty::U128])))]);
    let to_val = |s: &PShare| Val::Tup(vec![Val::Bool(s.0 as u8), Val::Seq(s.1.iter().map(|(m, k)| Val::Tup(vec![Val::U128(*m), Val::U128(*k)])).collect())]);
    let from_val = |v: &Val| -> Option<PShare> {
        let Val::Tup(t) = v else { return None };
        let (Val::Bool(b), Val::Seq(a)) = (&t[0], &t[1]) else { return None };
        Some((*b != 0, a.iter().map(|x| if let Val::Tup(mk) = x { if let (Val::U128(m), Val::U128(k)) = (&mk[0], &mk[1]) { (*m, *k) } else { (0, 0) } } else { (0, 0) }).collect()))
    };
    ch.send_bytes_to(n, encode_msg(&Val::Seq(vec![])), "delta").await.map_err(e)?;
    let d = ch.recv_bytes_from(n, "delta").await.map_err(e)?;
    let Some(Val::Seq(dv)) = decode_msg(&d, &Ty::U128) else { return Err("bad delta".into()) };
    let Some(Val::U128(delta)) = dv.first().cloned() else { return Err("empty delta".into()) };
    ch.send_bytes_to(n, encode_msg(&Val::Seq(vec![Val::U32(c.base as u32)])), "random shares").await.map_err(e)?;
    let r = ch.recv_bytes_from(n, "random shares").await.map_err(e)?;
    let Some(Val::Seq(rs)) = decode_msg(&r, &share_ty) else { return Err("bad random shares".into()) };
    let base: Vec<PShare> = rs.iter().filter_map(from_val).collect();
    let alpha_beta: Vec<(PShare, PShare)> = rec.iter().map(|(a, b)| (build(&base, a, n), build(&base, b, n))).collect();
    let mut submitted = alpha_beta.clone();
    if let Some((cp, idx, left)) = c.cheat {
        if cp == p && !submitted.is_empty() {
            let k = idx % submitted.len();
            let target = if left { &mut submitted[k].0 } else { &mut submitted[k].1 };
            // the dealer treats a zero MAC as "no MAC" (own-index sentinel), so a share whose MACs
            // are zero (the XOR of a share with itself) carries nothing that could contradict the
            // bit: only shares with real MACs are submitted with a flipped bit
            if target.1.iter().enumerate().all(|(j, (m, _))| j == p || *m != 0) {
                target.0 ^= true;
            }
        }
    }
    let msg = Val::Seq(submitted.iter().map(|(a, b)| Val::Tup(vec![to_val(a), to_val(b)])).collect());
    ch.send_bytes_to(n, encode_msg(&msg), "AND shares").await.map_err(e)?;
    let s = ch.recv_bytes_from(n, "AND shares").await.map_err(e)?;
    let Some(Val::Seq(ss)) = decode_msg(&s, &share_ty) else { return Err(format!("bad AND shares reply ({} bytes): {:?}", s.len(), String::from_utf8_lossy(&s[..s.len().min(80)]))) };
    let sigma: Vec<PShare> = ss.iter().filter_map(from_val).collect();
    let _ = p;
    Ok(PartyOut { delta, base, alpha_beta, sigma, ..Default::default() })
}

fn gen_case(max_l: usize, dealer_prob: u32) -> impl Strategy<Value = Case> {
    let l = prop_oneof![
        3 => 1usize..=12,
        2 => prop_oneof![Just(1usize), Just(2), Just(95), Just(96), Just(97), Just(223), Just(224), Just(225)],
        1 => 13usize..=max_l.max(14),
    ];
    (2usize..=5, l, 1usize..=12, any::<u64>(), proptest::collection::vec(any::<u128>(), 5), 0u32..100, crate::gens::gen_sched(5, true)).prop_map(move |(n, l, base, recipe_seed, deltas, dp, sched)| {
        let sched = match sched {
            SchedSpec::Starve(p) => SchedSpec::Starve(p % n as u8),
            s => s,
        };
        // keep n=5 cases small (cost)
        let l = if n >= 4 { l.min(60) } else { l };
        let dealer = dp < dealer_prob;
        // every other dealer case has one party that submits a flipped bit under the old MACs
        let cheat = (dealer && recipe_seed % 2 == 0).then(|| (((recipe_seed >> 8) as usize) % n, ((recipe_seed >> 16) as usize) % l.max(1), (recipe_seed >> 4) & 1 == 1));
        Case { n, l, base, recipe_seed, deltas: deltas[..n].to_vec(), dealer, cheat, sched }
    })
}

pub fn run(tier: Tier, seed: u64) -> i32 {
    let ctx = Ctx::new("C10", tier, seed, "exploration");
    ctx.set_rule("proptest: n in 2..5 x batch length l (1..12, boundary values where (l*15+160) crosses a multiple of 128, up to 600 in quick / 5000 in thorough, plus 3100 (bucket size 4) and in thorough 280000 at n=2 (bucket size 3)) x alpha/beta shares built as XOR of 0..3 random outputs of a previous aShare call (zero share, alpha=beta, shared operands) x global keys x schedule, through the real aShare / Beaver-aAND code (plain-typed wrappers) and through the trusted dealer speaking the engine's wire format, with the completion order of concurrently issued sends chosen by the schedule (every other dealer case: one party, any index, submits a left/right share (one with non-zero MACs) with a flipped bit under the old MACs - the dealer must refuse, or the AND shares it hands out must still satisfy the relation for the authenticated inputs); oracle: for every index and ordered pair (i,j) MAC_i[j] = key_j[i] XOR bit_i*delta_j for random shares and AND shares, XOR of sigma shares = (XOR alpha)(XOR beta), identical multi-party and pairwise coins; non-trivial = l >= 2 with some alpha != beta; distinct by hash of the case");
    prop_search(&ctx, "c10", tier.pick(140, 6000), || gen_case(tier.pick(600, 5000), 25), test_case);
    if !ctx.stopped() {
        // bucket size 4 (l >= 3100) and, in thorough, 3 (l >= 280000)
        let mut big = vec![Case { n: 2, l: 3100, base: 6, recipe_seed: seed, deltas: vec![seed as u128 | 1 << 100, !(seed as u128)], dealer: false, cheat: None, sched: SchedSpec::Eager }, Case { n: 2, l: 3099, base: 6, recipe_seed: seed + 1, deltas: vec![7, 1 << 127], dealer: false, cheat: None, sched: SchedSpec::Eager }];
        if tier == Tier::Thorough {
            big.push(Case { n: 3, l: 3100, base: 4, recipe_seed: seed + 2, deltas: vec![1, 2, 3], dealer: false, cheat: None, sched: SchedSpec::Eager });
            big.push(Case { n: 2, l: 280_000, base: 8, recipe_seed: seed + 3, deltas: vec![u128::MAX, 5], dealer: false, cheat: None, sched: SchedSpec::Eager });
        }
        // trusted dealer: every party index as the one that submits a flipped bit under the old MACs
        for n in 2..=tier.pick(4usize, 5) {
            for party in 0..n {
                for left in [true, false] {
                    for idx in 0..tier.pick(4usize, 12) {
                        big.push(Case { n, l: 12, base: 5, recipe_seed: seed.wrapping_mul(977).wrapping_add((n * 1000 + party * 100 + idx) as u64), deltas: (0..n).map(|k| (seed as u128 + 1) << (k * 7)).collect(), dealer: true, cheat: Some((party, idx, left)), sched: SchedSpec::Eager });
                    }
                }
            }
        }
        crate::fw::enumerate(&ctx, &big, test_case);
    }
    ctx.finish()
}

pub fn replay(path: &str) -> i32 {
    crate::fw::replay_case::<Case, _>("C10", path, 2, test_case)
}
