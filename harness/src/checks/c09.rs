//! C09 - communication pattern and message sizes do not depend on private inputs.
use proptest::prelude::*;
use serde::{Deserialize, Serialize};
use serde_json::json;

use crate::circ::{CircParams, gen_circuit, gen_inputs};
use crate::fw::{CaseInfo, Ctx, Fail, Tier, hash_of, prop_search};
use crate::gens::gen_sched;
use crate::run::{Adversary, MpcCase, check_honest_result, run_mpc};
use crate::sim::exec::{ExecCfg, Outcome};
use crate::sim::sched::SchedSpec;
use crate::trace::shape;

#[derive(Clone, Debug, Serialize, Deserialize)]
pub struct Case {
    pub base: MpcCase,
    /// further (inputs, tmp, cap, sched) variants of the same public configuration
    pub variants: Vec<(Vec<Vec<bool>>, Vec<bool>, usize, SchedSpec)>,
}

fn gen_c09(cp: CircParams, k: usize) -> impl Strategy<Value = Case> {
    gen_circuit(cp).prop_flat_map(move |circ| {
        let n = circ.n();
        let var = (gen_inputs(circ.input_regs.clone()), proptest::collection::vec(any::<bool>(), n), prop_oneof![Just(0usize), Just(1), Just(2)], gen_sched(n, true));
        (Just(circ), 0..n, any::<u32>(), proptest::collection::vec(var, k)).prop_map(move |(circ, p_eval, mask, mut vars)| {
            let p_out = crate::circ::subset_from_mask(mask, n);
            let (inputs, tmp, cap, sched) = vars.remove(0);
            Case { base: MpcCase { circ, inputs, p_eval, p_out, tmp, cap, sched }, variants: vars }
        })
    })
}

pub fn test_case(case: &Case) -> Result<CaseInfo, Fail> {
    let cfg = ExecCfg { record_probes: false, ..Default::default() };
    let run0 = run_mpc(&case.base, Adversary::default(), &cfg);
    if run0.res.outcomes.iter().any(|o| matches!(o, Outcome::Budget)) {
        return Ok(CaseInfo { undecided: true, ..Default::default() });
    }
    check_honest_result(&case.base, &run0.res).map_err(|e| Fail::new("C09|wrong-result", e))?;
    let s0 = shape(&run0.res.msgs);
    let mut differing_inputs = false;
    for (inputs, tmp, cap, sched) in &case.variants {
        let c = MpcCase { inputs: inputs.clone(), tmp: tmp.clone(), cap: *cap, sched: sched.clone(), ..case.base.clone() };
        differing_inputs |= *inputs != case.base.inputs;
        let run = run_mpc(&c, Adversary::default(), &cfg);
        if run.res.outcomes.iter().any(|o| matches!(o, Outcome::Budget)) {
            return Ok(CaseInfo { undecided: true, ..Default::default() });
        }
        check_honest_result(&c, &run.res).map_err(|e| Fail::new("C09|wrong-result", e))?;
        let s = shape(&run.res.msgs);
        if s != s0 {
            // find the first difference
            let mut what = String::from("different set of links");
            for (k, v) in &s0 {
                match s.get(k) {
                    Some(w) if w == v => {}
                    Some(w) => {
                        let i = v.iter().zip(w.iter()).position(|(a, b)| a != b).unwrap_or(v.len().min(w.len()));
                        what = format!("link {:?}: message #{i}: {:?} vs {:?} (counts {} vs {})", k, v.get(i), w.get(i), v.len(), w.len());
                        break;
                    }
                    None => {
                        what = format!("link {:?} missing", k);
                        break;
                    }
                }
            }
            return Err(Fail::new("C09|pattern-differs", format!("inputs {:?} vs {:?}: {what}", case.base.inputs, inputs)));
        }
    }
    let nontrivial = case.base.circ.and_ops >= 1 && differing_inputs;
    Ok(CaseInfo {
        nontrivial: nontrivial.then(|| hash_of(&serde_json::to_string(case).unwrap())),
        classes: vec![format!("n={}", case.base.n()), if case.base.circ.and_ops > 0 { "has_and".into() } else { "no_and".into() }],
        sample: Some(json!({"n": case.base.n(), "p_eval": case.base.p_eval, "p_out": case.base.p_out, "ands": case.base.circ.and_ops, "inputs": [case.base.inputs.clone(), case.variants[0].0.clone()], "messages": run0.res.msgs.len()})),
        extra_runs: case.variants.len() as u64,
        ..Default::default()
    })
}

/// One garbled row: the values are coins of the engine (labels, MAC values), the number of MACs is
/// public.  u128 values travel as strings (JSON numbers do not hold them).
#[derive(Clone, Debug, Serialize, Deserialize)]
pub struct RowCase {
    pub row_values: Vec<String>,
    pub bit: bool,
    pub w: usize,
    pub row: u8,
}

/// magnitude classes that a variable-length integer encoding would distinguish
fn gen_u128_class() -> impl Strategy<Value = u128> {
    prop_oneof![
        Just(0u128),
        (0u128..251),
        (251u128..1 << 16),
        (1u128 << 16..1u128 << 32),
        (1u128 << 32..1u128 << 64),
        (1u128 << 64..=u128::MAX),
        any::<u128>(),
        Just(u128::MAX),
    ]
}

fn gen_row() -> impl Strategy<Value = RowCase> {
    // label_x, label_y, label, then 1..5 MACs (one per party)
    (proptest::collection::vec(gen_u128_class(), 4..=8), any::<bool>(), 0usize..5000, 0u8..4)
        .prop_map(|(v, bit, w, row)| RowCase { row_values: v.iter().map(|x| x.to_string()).collect(), bit, w, row })
}

/// The length of an encrypted row is a function of the number of MACs only, and the row decrypts
/// to what was encrypted.  Reference length: the same shape with all-ones values.
pub fn test_row(c: &RowCase) -> Result<CaseInfo, Fail> {
    let v: Vec<u128> = c.row_values.iter().map(|x| x.parse().unwrap_or(0)).collect();
    let (lx, ly, label, macs) = (v[0], v[1], v[2], &v[3..]);
    let got = polytune::verif::garble_row_roundtrip(lx, ly, c.w, c.row, c.bit, macs, label).map_err(|e| Fail::new("C09|row-roundtrip", format!("row does not round-trip: {e}")))?;
    let ones = vec![u128::MAX; macs.len()];
    let reference = polytune::verif::garble_row_roundtrip(u128::MAX, u128::MAX, c.w, c.row, true, &ones, u128::MAX).map_err(|e| Fail::new("C09|row-roundtrip", format!("reference row does not round-trip: {e}")))?;
    if (got.1, &got.2, got.3) != (c.bit, &macs.to_vec(), label) {
        return Err(Fail::new("C09|row-roundtrip", format!("row decrypts to a different triple: {:?}", got)));
    }
    if got.0 != reference.0 {
        return Err(Fail::new("C09|row-length-differs", format!("garbled row with {} MACs is {} bytes for the values {:?} and {} bytes for all-ones values", macs.len(), got.0, c.row_values, reference.0)));
    }
    let small = v.iter().filter(|x| **x < 1u128 << 64).count();
    Ok(CaseInfo {
        nontrivial: (small > 0).then(|| hash_of(&serde_json::to_string(c).unwrap())),
        classes: vec![format!("row_macs={}", macs.len()), if small > 0 { "row_small_value".into() } else { "row_large_values".into() }],
        sample: Some(json!({"row_macs": macs.len(), "bytes": got.0, "values_below_2^64": small})),
        ..Default::default()
    })
}

pub fn run(tier: Tier, seed: u64) -> i32 {
    let ctx = Ctx::new("C09", tier, seed, "exploration");
    ctx.set_rule("proptest: public configuration (circuit, n in 2..4, p_eval, p_out; size classes: small, wide, 100..700 AND gates with every residue modulo 32, thousands of registers, > 1000 AND gates) x K=3..4 executions with independently generated inputs, engine coins, schedules, link capacities and tmp_dir choices; oracle: for every ordered pair the sequence of (label, byte length) of the messages sent is identical in all K executions (metamorphic relation, no decoding); non-trivial = >=1 AND gate and inputs differing between the executions; distinct by hash of the case; evaluations counts engine executions; plus (unit level, hook garble_row_roundtrip) garbled rows with 1..5 MACs whose labels / MAC values are drawn from the magnitude classes {0, <251, <2^16, <2^32, <2^64, >=2^64, all-ones} (coins that a run samples with probability 2^-64): the ciphertext length equals that of the all-ones row of the same shape and the row decrypts to the triple that was encrypted");
    ctx.assume("per ordered pair the order of sends is the sender's program order (monitor m1: one send outstanding per peer)");
    let cp = CircParams { n_min: 2, n_max: 4, max_gates: 30, ..Default::default() };
    prop_search(&ctx, "c09", tier.pick(96, 4000), || gen_c09(cp.clone(), 4), test_case);
    if !ctx.stopped() {
        // wide circuits: > 64 unique outputs, many inputs (message sizes in other ranges)
        prop_search(&ctx, "c09wide", tier.pick(16, 800), || gen_c09(CircParams::wide(2, 3), 3), test_case);
    }
    if !ctx.stopped() {
        // a hundred to several hundred AND gates, every residue of the count modulo 32 (bit-packed
        // or word-oriented encodings of preprocessing messages would depend on secret bits only
        // for some lengths), and the sizes at which the leaky-AND batches cross 512 / 1024 / 2048
        let mut bulk: Vec<usize> = (100..=140).collect();
        bulk.extend([205, 206, 256, 300, 409, 410, 411, 511, 512, 513, 700]);
        let mid = CircParams { n_min: 2, n_max: 3, max_gates: 8, bulk, bulk_prob: 255, ..Default::default() };
        prop_search(&ctx, "c09mid", tier.pick(48, 1500), || gen_c09(mid.clone(), 4), test_case);
    }
    if !ctx.stopped() {
        // thousands of registers, few of them inputs / outputs: the sparse per-register messages
        // are long (a length that depends on their content would show here)
        let regs = CircParams { n_min: 2, n_max: 3, max_gates: 10, huge_regs: vec![4232, 5000, 20_000, 65_600], ..Default::default() };
        prop_search(&ctx, "c09regs", tier.pick(16, 300), || gen_c09(regs.clone(), 3), test_case);
    }
    if !ctx.stopped() {
        let big = CircParams { n_min: 2, n_max: 3, max_gates: 8, bulk: vec![1001, 2500], bulk_prob: 255, ..Default::default() };
        prop_search(&ctx, "c09big", tier.pick(4, 40), || gen_c09(big.clone(), 3), test_case);
    }
    if !ctx.stopped() {
        // fixed-size rows: message lengths must not depend on the magnitude of the coins either
        prop_search(&ctx, "c09row", tier.pick(4000, 200_000), gen_row, test_row);
    }
    ctx.finish()
}

pub fn replay(path: &str) -> i32 {
    let text = std::fs::read_to_string(path).unwrap_or_default();
    if text.contains("\"row_values\"") {
        return crate::fw::replay_case::<RowCase, _>("C09", path, 1, test_row);
    }
    crate::fw::replay_case::<Case, _>("C09", path, 3, test_case)
}
