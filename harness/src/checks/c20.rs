//! C20 - transpose, carry-less multiply and AES-based hash / PRG match their definitions.
use proptest::prelude::*;
use serde::{Deserialize, Serialize};
use serde_json::json;

use polytune::verif as pv;

use crate::fw::{CaseInfo, Ctx, Fail, Tier, enumerate, hash_of, prop_search};
use crate::prim::{Aes128Ref, clmul_ref, ctr_keystream, transpose_ref, xor16};
use crate::sim::exec::quiet_panics;
use crate::sim::sched::Mix;

#[derive(Clone, Debug, Serialize, Deserialize)]
pub enum Case {
    /// rows x cols bit matrix with pseudo-random content from `seed` (density class), buffer offset
    Transpose { rows: usize, cols: usize, seed: u64, density: u8, offset: usize, portable_only: bool },
    Clmul { a: u128, b: u128 },
    Hash { tweak: [u8; 16], x: [u8; 16] },
    Rng { seed: [u8; 16], len: usize },
    /// slice variants of the hashes on `len` blocks
    HashSlice { seed: u64, len: usize },
    /// a sequence of operations on one generator: v < 1200 = fill_bytes(v), 1200 = next_u32, 1201 = next_u64
    RngOps { seed: [u8; 16], ops: Vec<u16> },
}

fn fill(len: usize, seed: u64, density: u8) -> Vec<u8> {
    let mut m = Mix(seed);
    (0..len)
        .map(|_| {
            let r = m.next();
            match density % 4 {
                0 => r as u8,
                1 => (r as u8) & ((r >> 8) as u8) & ((r >> 16) as u8), // sparse
                2 => (r as u8) | ((r >> 8) as u8) | ((r >> 16) as u8), // dense
                _ => {
                    if r % 7 == 0 {
                        1 << (r >> 8) % 8
                    } else {
                        0
                    }
                }
            }
        })
        .collect()
}

pub fn test_case(c: &Case) -> Result<CaseInfo, Fail> {
    let desc;
    let mut classes = vec![];
    match c {
        Case::Transpose { rows, cols, seed, density, offset, portable_only } => {
            let len = rows * cols / 8;
            // unaligned buffers: place the matrix at `offset` inside larger allocations
            let mut inbuf = vec![0u8; len + 16];
            inbuf[*offset..*offset + len].copy_from_slice(&fill(len, *seed, *density));
            let input = &inbuf[*offset..*offset + len];
            let want = transpose_ref(input, *rows, *cols);
            let mut outbuf = vec![0u8; len + 16];
            let r = quiet_panics(|| pv::transpose_bitmatrix_portable(input, &mut outbuf[*offset..*offset + len], *rows));
            if let Err(p) = r {
                return Err(Fail::new("C20|transpose|portable-panic", format!("portable transpose panicked on accepted shape {rows}x{cols}: {p}")));
            }
            if outbuf[*offset..*offset + len] != want[..] {
                return Err(Fail::new("C20|transpose|portable", format!("portable transpose of {rows}x{cols} (offset {offset}, seed {seed}) differs from the definition")));
            }
            classes.push("transpose:portable".to_string());
            if !portable_only {
                let mut out2 = vec![0u8; len + 16];
                let r = quiet_panics(|| pv::transpose_bitmatrix(input, &mut out2[*offset..*offset + len], *rows));
                if let Err(p) = r {
                    return Err(Fail::new("C20|transpose|dispatch-panic", format!("dispatching transpose panicked on accepted shape {rows}x{cols}: {p}")));
                }
                if out2[*offset..*offset + len] != want[..] {
                    return Err(Fail::new("C20|transpose|dispatch", format!("dispatching (AVX2) transpose of {rows}x{cols} (offset {offset}, seed {seed}) differs from the definition")));
                }
                classes.push("transpose:dispatch".to_string());
                if *rows == 128 {
                    let o = pv::ot_transpose(input, *rows, *cols);
                    if o != want {
                        return Err(Fail::new("C20|transpose|ot", format!("OT transpose of 128x{cols} differs from the definition")));
                    }
                }
            }
            if cols % 128 != 0 {
                classes.push("cols%128!=0".into());
            }
            if *offset % 16 != 0 {
                classes.push("unaligned".into());
            }
            desc = json!({"transpose": [rows, cols], "offset": offset, "density": density});
        }
        Case::Clmul { a, b } => {
            let want = clmul_ref(*a, *b);
            let d = pv::clmul(*a, *b);
            let s = pv::clmul_scalar(*a, *b);
            if d != want {
                return Err(Fail::new("C20|clmul|dispatch", format!("clmul({a:032x},{b:032x}) = {d:032x?}, schoolbook {want:032x?}")));
            }
            if s != want {
                return Err(Fail::new("C20|clmul|scalar", format!("scalar clmul({a:032x},{b:032x}) = {s:032x?}, schoolbook {want:032x?}")));
            }
            classes.push("clmul".into());
            desc = json!({"clmul": [format!("{a:032x}"), format!("{b:032x}")]});
        }
        Case::Hash { tweak, x } => {
            let pi = Aes128Ref::new(pv::fixed_key());
            let px = pi.encrypt(*x);
            let cr = xor16(px, *x);
            let tccr = xor16(pi.encrypt(xor16(px, *tweak)), px);
            if pv::cr_hash_block(*x) != cr {
                return Err(Fail::new("C20|hash|cr", format!("cr_hash({x:02x?}) != pi(x)^x")));
            }
            if pv::tccr_hash_block(*tweak, *x) != tccr {
                return Err(Fail::new("C20|hash|tccr", format!("tccr_hash({tweak:02x?},{x:02x?}) != pi(pi(x)^t)^pi(x)")));
            }
            classes.push("hash".into());
            desc = json!({"hash": {"tweak": format!("{tweak:02x?}"), "x": format!("{x:02x?}")}});
        }
        Case::HashSlice { seed, len } => {
            let raw = fill(len * 32, *seed, 0);
            let xs: Vec<[u8; 16]> = (0..*len).map(|i| raw[32 * i..32 * i + 16].try_into().unwrap()).collect();
            let ts: Vec<[u8; 16]> = (0..*len).map(|i| raw[32 * i + 16..32 * i + 32].try_into().unwrap()).collect();
            let pi = Aes128Ref::new(pv::fixed_key());
            let cr = pv::cr_hash_slice(&xs);
            let tccr = pv::tccr_hash_slice(&ts, &xs);
            if cr.len() != *len || tccr.len() != *len {
                return Err(Fail::new("C20|hash|slice-length", format!("slice hash of {len} blocks returns {} / {} blocks", cr.len(), tccr.len())));
            }
            for i in 0..*len {
                let px = pi.encrypt(xs[i]);
                if cr[i] != xor16(px, xs[i]) {
                    return Err(Fail::new("C20|hash|cr-slice", format!("cr_hash_slice of {len} blocks: block {i} != pi(x)^x")));
                }
                if tccr[i] != xor16(pi.encrypt(xor16(px, ts[i])), px) {
                    return Err(Fail::new("C20|hash|tccr-slice", format!("tccr_hash_slice of {len} blocks: block {i} != pi(pi(x)^tweak(i))^pi(x)")));
                }
            }
            classes.push("hash-slice".into());
            if len % 8 != 0 && *len > 8 {
                classes.push("hash-slice:ragged".into());
            }
            desc = json!({"hash_slice_len": len});
        }
        Case::RngOps { seed, ops } => {
            let ops2: Vec<pv::RngOp> = ops.iter().map(|v| if *v < 1200 { pv::RngOp::Fill(*v as usize) } else if *v == 1200 { pv::RngOp::U32 } else { pv::RngOp::U64 }).collect();
            let outs = pv::aes_rng_ops(*seed, &ops2);
            let total: usize = outs.iter().map(|o| o.len()).sum();
            // every refill of the generator's buffer takes 8 counter values
            let ks = ctr_keystream(*seed, total + 128 * (ops.len() + 2) + 256);
            let mut used = vec![false; ks.len()];
            for (k, o) in outs.iter().enumerate() {
                // pieces the generator hands out: whole blocks (block-aligned in the keystream), then
                // the tail / the integer (word-aligned; an integer may straddle a buffer refill)
                let mut pieces: Vec<(usize, usize, usize)> = vec![]; // (start, len, alignment)
                let whole = if ops[k] < 1200 { o.len() / 16 } else { 0 };
                for b in 0..whole {
                    pieces.push((16 * b, 16, 16));
                }
                if o.len() > 16 * whole {
                    pieces.push((16 * whole, o.len() - 16 * whole, 4));
                }
                let mut i = 0;
                while i < pieces.len() {
                    let (st, len, al) = pieces[i];
                    let seg = &o[st..st + len];
                    let cands: Vec<usize> = (0..ks.len() - len).step_by(al).filter(|a| ks[*a..*a + len] == *seg).collect();
                    if cands.is_empty() {
                        if len == 8 && ops[k] == 1201 {
                            // next_u64 across a refill: two words
                            pieces[i] = (st, 4, 4);
                            pieces.insert(i + 1, (st + 4, 4, 4));
                            continue;
                        }
                        return Err(Fail::new("C20|rng-seq|not-keystream", format!("operation {k} of {ops:?}: output bytes {st}..{} are no part of the AES-128 counter-mode keystream of the seed", st + len)));
                    }
                    // short pieces can match by chance: only pieces of >= 8 bytes are booked / judged for reuse
                    if len >= 8 {
                        let Some(a) = cands.iter().copied().find(|a| !used[*a..*a + len].iter().any(|u| *u)) else {
                            return Err(Fail::new("C20|rng-seq|keystream-reused", format!("operation {k} of {ops:?} outputs keystream bytes {}..{} that an earlier operation has already output (at least partly)", cands[0], cands[0] + len)));
                        };
                        used[a..a + len].iter_mut().for_each(|u| *u = true);
                    }
                    i += 1;
                }
            }
            classes.push("rng-seq".into());
            if ops.iter().filter(|v| **v < 1200 && **v % 16 != 0).count() >= 2 {
                classes.push("rng-seq:>=2 ragged fills".into());
            }
            desc = json!({"rng_ops": ops});
        }
        Case::Rng { seed, len } => {
            let got = pv::aes_rng_fill(*seed, *len);
            let want = ctr_keystream(*seed, *len);
            if got != want {
                let at = got.iter().zip(want.iter()).position(|(a, b)| a != b);
                return Err(Fail::new("C20|rng", format!("AesRng(seed).fill_bytes({len}) differs from the AES-128 CTR keystream at byte {at:?}")));
            }
            classes.push("rng".into());
            if len % 16 != 0 {
                classes.push("rng:len%16!=0".into());
            }
            if *len > 128 {
                classes.push("rng:len>8 blocks".into());
            }
            desc = json!({"rng_len": len});
        }
    }
    Ok(CaseInfo { nontrivial: Some(hash_of(&serde_json::to_string(c).unwrap())), classes, sample: Some(desc), ..Default::default() })
}

fn structured_u128() -> impl Strategy<Value = u128> {
    prop_oneof![
        3 => any::<u128>(),
        1 => (0u32..128).prop_map(|i| 1u128 << i),
        1 => (0u32..128, 0u32..128).prop_map(|(i, j)| (1u128 << i) | (1u128 << j)),
        1 => Just(u128::MAX),
        1 => Just(0u128),
        1 => (any::<u128>(), any::<u128>()).prop_map(|(a, b)| a & b & (a >> 7)),
        1 => (any::<u128>(), any::<u128>()).prop_map(|(a, b)| a | b | (a << 3)),
        1 => any::<u64>().prop_map(|x| (x as u128) << 64),
        1 => any::<u64>().prop_map(|x| x as u128),
    ]
}

fn gen_random() -> impl Strategy<Value = Case> {
    prop_oneof![
        // dispatching entry: rows multiple of 128, cols multiple of 8, >= 16
        2 => (1usize..=3, 2usize..=80, any::<u64>(), any::<u8>(), 0usize..16).prop_map(|(r, c, seed, density, offset)| Case::Transpose { rows: 128 * r, cols: 8 * c, seed, density, offset, portable_only: false }),
        // portable entry: rows multiple of 16
        2 => (1usize..=20, 2usize..=40, any::<u64>(), any::<u8>(), 0usize..16).prop_map(|(r, c, seed, density, offset)| Case::Transpose { rows: 16 * r, cols: 8 * c, seed, density, offset, portable_only: true }),
        4 => (structured_u128(), structured_u128()).prop_map(|(a, b)| Case::Clmul { a, b }),
        3 => (structured_u128(), structured_u128()).prop_map(|(t, x)| Case::Hash { tweak: t.to_le_bytes(), x: x.to_be_bytes() }),
        2 => (any::<u128>(), 0usize..=1100).prop_map(|(s, len)| Case::Rng { seed: s.to_le_bytes(), len }),
        1 => (any::<u64>(), 0usize..=70).prop_map(|(seed, len)| Case::HashSlice { seed, len }),
        2 => (any::<u128>(), proptest::collection::vec(prop_oneof![4 => 0u16..=300, 1 => 300u16..1200, 1 => Just(1200u16), 1 => Just(1201u16)], 1..8)).prop_map(|(s, ops)| Case::RngOps { seed: s.to_le_bytes(), ops }),
    ]
}

pub fn run(tier: Tier, seed: u64) -> i32 {
    let ctx = Ctx::new("C20", tier, seed, "exploration");
    ctx.set_rule("systematic: every 128 x c matrix shape for c in {16,24,..,4096} (quick: every c up to 1024 and every 8th above) with random / sparse / dense / single-bit content at buffer offsets 0..15, all basis pairs x^i * x^j, every generator length 0..1100, the slice variants of both hashes on 0..67 blocks, every pair of lengths 0..40 in consecutive fill_bytes calls; proptest: operation sequences (fill_bytes / next_u32 / next_u64) on one generator - every output run is part of the counter-mode keystream of the seed and no keystream byte is output twice (runs >= 8 bytes); random rows x cols shapes for the dispatching (rows%128==0) and the portable (rows%16==0) entry, structured and random operands, blocks and tweaks, seeds and lengths; oracle: harness-side references (transpose by definition with LSB-first bit numbering, schoolbook 128x128 carry-less product, textbook AES-128 checked against FIPS-197 C.1 and the aes crate, CTR keystream AES_seed(LE128(i))); dispatching = portable/scalar = reference; distinct by hash of the case");
    ctx.assume("this host has AVX2 and PCLMULQDQ, so the dispatching entries exercise the SIMD paths; single calls are compared exactly; for sequences of calls the oracle is membership in the keystream and no reuse (the buffering of partial blocks is the generator's choice)");
    if let Err(e) = crate::prim::self_test() {
        ctx.infra(e);
        return ctx.finish();
    }
    let mut cases = vec![];
    let mut c = 16;
    while c <= 4096 {
        let keep = tier == Tier::Thorough || c <= 1024 || (c / 8 + seed as usize) % 8 == 0;
        if keep {
            cases.push(Case::Transpose { rows: 128, cols: c, seed: seed ^ c as u64, density: (c / 8) as u8, offset: (c / 8) % 16, portable_only: false });
        }
        c += 8;
    }
    for i in 0..128u32 {
        for j in 0..128u32 {
            if tier == Tier::Thorough || (i + j + seed as u32) % 4 == 0 {
                cases.push(Case::Clmul { a: 1u128 << i, b: 1u128 << j });
            }
        }
    }
    for len in 0..=1100usize {
        cases.push(Case::Rng { seed: (seed as u128 * 0x9E3779B97F4A7C15 + len as u128).to_le_bytes(), len });
    }
    for len in 0..=67usize {
        cases.push(Case::HashSlice { seed: seed.wrapping_mul(31).wrapping_add(len as u64), len });
    }
    // every pair of lengths 0..40 in two consecutive fill_bytes calls, followed by a whole block
    for a in 0..=40u16 {
        for b in 0..=40u16 {
            if tier == Tier::Thorough || (a + b + seed as u16) % 3 == 0 {
                cases.push(Case::RngOps { seed: (seed as u128 * 77 + a as u128 * 64 + b as u128).to_le_bytes(), ops: vec![a, b, 16] });
            }
        }
    }
    ctx.extra("systematic_cases", json!(cases.len()));
    enumerate(&ctx, &cases, test_case);
    if !ctx.stopped() {
        prop_search(&ctx, "random", tier.pick(60_000, 6_000_000), gen_random, test_case);
    }
    ctx.finish()
}

pub fn replay(path: &str) -> i32 {
    crate::fw::replay_case::<Case, _>("C20", path, 1, test_case)
}
