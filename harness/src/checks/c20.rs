//! C20 - transpose, carry-less multiply and AES-based hash / PRG match their definitions.
use proptest::prelude::*;
use serde::{Deserialize, Serialize};
use serde_json::json;

use polytune::verif as pv;

use crate::fw::{CaseInfo, Ctx, Fail, Tier, enumerate, hash_of, prop_search};
use crate::prim::{Aes128Ref, clmul_ref, ctr_keystream, transpose_ref, xor16};
use crate::sim::exec::quiet_panics;
use crate::sim::sched::Mix;

#[derive(Clone, Debug, Serialize, Deserialize)]
pub enum Case {
    /// rows x cols bit matrix with pseudo-random content from `seed` (density class), buffer offset
    Transpose { rows: usize, cols: usize, seed: u64, density: u8, offset: usize, portable_only: bool },
    Clmul { a: u128, b: u128 },
    Hash { tweak: [u8; 16], x: [u8; 16] },
    Rng { seed: [u8; 16], len: usize },
}

fn fill(len: usize, seed: u64, density: u8) -> Vec<u8> {
    let mut m = Mix(seed);
    (0..len)
        .map(|_| {
            let r = m.next();
            match density % 4 {
                0 => r as u8,
                1 => (r as u8) & ((r >> 8) as u8) & ((r >> 16) as u8), // sparse
                2 => (r as u8) | ((r >> 8) as u8) | ((r >> 16) as u8), // dense
                _ => {
                    if r % 7 == 0 {
                        1 << (r >> 8) % 8
                    } else {
                        0
                    }
                }
            }
        })
        .collect()
}

pub fn test_case(c: &Case) -> Result<CaseInfo, Fail> {
    let desc;
    let mut classes = vec![];
    match c {
        Case::Transpose { rows, cols, seed, density, offset, portable_only } => {
            let len = rows * cols / 8;
            // unaligned buffers: place the matrix at `offset` inside larger allocations
            let mut inbuf = vec![0u8; len + 16];
            inbuf[*offset..*offset + len].copy_from_slice(&fill(len, *seed, *density));
            let input = &inbuf[*offset..*offset + len];
            let want = transpose_ref(input, *rows, *cols);
            let mut outbuf = vec![0u8; len + 16];
            let r = quiet_panics(|| pv::transpose_bitmatrix_portable(input, &mut outbuf[*offset..*offset + len], *rows));
            if let Err(p) = r {
                return Err(Fail::new("C20|transpose|portable-panic", format!("portable transpose panicked on accepted shape {rows}x{cols}: {p}")));
            }
            if outbuf[*offset..*offset + len] != want[..] {
                return Err(Fail::new("C20|transpose|portable", format!("portable transpose of {rows}x{cols} (offset {offset}, seed {seed}) differs from the definition")));
            }
            classes.push("transpose:portable".to_string());
            if !portable_only {
                let mut out2 = vec![0u8; len + 16];
                let r = quiet_panics(|| pv::transpose_bitmatrix(input, &mut out2[*offset..*offset + len], *rows));
                if let Err(p) = r {
                    return Err(Fail::new("C20|transpose|dispatch-panic", format!("dispatching transpose panicked on accepted shape {rows}x{cols}: {p}")));
                }
                if out2[*offset..*offset + len] != want[..] {
                    return Err(Fail::new("C20|transpose|dispatch", format!("dispatching (AVX2) transpose of {rows}x{cols} (offset {offset}, seed {seed}) differs from the definition")));
                }
                classes.push("transpose:dispatch".to_string());
                if *rows == 128 {
                    let o = pv::ot_transpose(input, *rows, *cols);
                    if o != want {
                        return Err(Fail::new("C20|transpose|ot", format!("OT transpose of 128x{cols} differs from the definition")));
                    }
                }
            }
            if cols % 128 != 0 {
                classes.push("cols%128!=0".into());
            }
            if *offset % 16 != 0 {
                classes.push("unaligned".into());
            }
            desc = json!({"transpose": [rows, cols], "offset": offset, "density": density});
        }
        Case::Clmul { a, b } => {
            let want = clmul_ref(*a, *b);
            let d = pv::clmul(*a, *b);
            let s = pv::clmul_scalar(*a, *b);
            if d != want {
                return Err(Fail::new("C20|clmul|dispatch", format!("clmul({a:032x},{b:032x}) = {d:032x?}, schoolbook {want:032x?}")));
            }
            if s != want {
                return Err(Fail::new("C20|clmul|scalar", format!("scalar clmul({a:032x},{b:032x}) = {s:032x?}, schoolbook {want:032x?}")));
            }
            classes.push("clmul".into());
            desc = json!({"clmul": [format!("{a:032x}"), format!("{b:032x}")]});
        }
        Case::Hash { tweak, x } => {
            let pi = Aes128Ref::new(pv::fixed_key());
            let px = pi.encrypt(*x);
            let cr = xor16(px, *x);
            let tccr = xor16(pi.encrypt(xor16(px, *tweak)), px);
            if pv::cr_hash_block(*x) != cr {
                return Err(Fail::new("C20|hash|cr", format!("cr_hash({x:02x?}) != pi(x)^x")));
            }
            if pv::tccr_hash_block(*tweak, *x) != tccr {
                return Err(Fail::new("C20|hash|tccr", format!("tccr_hash({tweak:02x?},{x:02x?}) != pi(pi(x)^t)^pi(x)")));
            }
            classes.push("hash".into());
            desc = json!({"hash": {"tweak": format!("{tweak:02x?}"), "x": format!("{x:02x?}")}});
        }
        Case::Rng { seed, len } => {
            let got = pv::aes_rng_fill(*seed, *len);
            let want = ctr_keystream(*seed, *len);
            if got != want {
                let at = got.iter().zip(want.iter()).position(|(a, b)| a != b);
                return Err(Fail::new("C20|rng", format!("AesRng(seed).fill_bytes({len}) differs from the AES-128 CTR keystream at byte {at:?}")));
            }
            classes.push("rng".into());
            if len % 16 != 0 {
                classes.push("rng:len%16!=0".into());
            }
            if *len > 128 {
                classes.push("rng:len>8 blocks".into());
            }
            desc = json!({"rng_len": len});
        }
    }
    Ok(CaseInfo { nontrivial: Some(hash_of(&serde_json::to_string(c).unwrap())), classes, sample: Some(desc), ..Default::default() })
}

fn structured_u128() -> impl Strategy<Value = u128> {
    prop_oneof![
        3 => any::<u128>(),
        1 => (0u32..128).prop_map(|i| 1u128 << i),
        1 => (0u32..128, 0u32..128).prop_map(|(i, j)| (1u128 << i) | (1u128 << j)),
        1 => Just(u128::MAX),
        1 => Just(0u128),
        1 => (any::<u128>(), any::<u128>()).prop_map(|(a, b)| a & b & (a >> 7)),
        1 => (any::<u128>(), any::<u128>()).prop_map(|(a, b)| a | b | (a << 3)),
        1 => any::<u64>().prop_map(|x| (x as u128) << 64),
        1 => any::<u64>().prop_map(|x| x as u128),
    ]
}

fn gen_random() -> impl Strategy<Value = Case> {
    prop_oneof![
        // dispatching entry: rows multiple of 128, cols multiple of 8, >= 16
        2 => (1usize..=3, 2usize..=80, any::<u64>(), any::<u8>(), 0usize..16).prop_map(|(r, c, seed, density, offset)| Case::Transpose { rows: 128 * r, cols: 8 * c, seed, density, offset, portable_only: false }),
        // portable entry: rows multiple of 16
        2 => (1usize..=20, 2usize..=40, any::<u64>(), any::<u8>(), 0usize..16).prop_map(|(r, c, seed, density, offset)| Case::Transpose { rows: 16 * r, cols: 8 * c, seed, density, offset, portable_only: true }),
        4 => (structured_u128(), structured_u128()).prop_map(|(a, b)| Case::Clmul { a, b }),
        3 => (structured_u128(), structured_u128()).prop_map(|(t, x)| Case::Hash { tweak: t.to_le_bytes(), x: x.to_be_bytes() }),
        2 => (any::<u128>(), 0usize..=1100).prop_map(|(s, len)| Case::Rng { seed: s.to_le_bytes(), len }),
    ]
}

pub fn run(tier: Tier, seed: u64) -> i32 {
    let ctx = Ctx::new("C20", tier, seed, "exploration");
    ctx.set_rule("systematic: every 128 x c matrix shape for c in {16,24,..,4096} (quick: every c up to 1024 and every 8th above) with random / sparse / dense / single-bit content at buffer offsets 0..15, all basis pairs x^i * x^j, every generator length 0..1100; proptest: random rows x cols shapes for the dispatching (rows%128==0) and the portable (rows%16==0) entry, structured and random operands, blocks and tweaks, seeds and lengths; oracle: harness-side references (transpose by definition with LSB-first bit numbering, schoolbook 128x128 carry-less product, textbook AES-128 checked against FIPS-197 C.1 and the aes crate, CTR keystream AES_seed(LE128(i))); dispatching = portable/scalar = reference; distinct by hash of the case");
    ctx.assume("this host has AVX2 and PCLMULQDQ, so the dispatching entries exercise the SIMD paths; generator output is compared for one fill_bytes call on a fresh generator");
    if let Err(e) = crate::prim::self_test() {
        ctx.infra(e);
        return ctx.finish();
    }
    let mut cases = vec![];
    let mut c = 16;
    while c <= 4096 {
        let keep = tier == Tier::Thorough || c <= 1024 || (c / 8 + seed as usize) % 8 == 0;
        if keep {
            cases.push(Case::Transpose { rows: 128, cols: c, seed: seed ^ c as u64, density: (c / 8) as u8, offset: (c / 8) % 16, portable_only: false });
        }
        c += 8;
    }
    for i in 0..128u32 {
        for j in 0..128u32 {
            if tier == Tier::Thorough || (i + j + seed as u32) % 4 == 0 {
                cases.push(Case::Clmul { a: 1u128 << i, b: 1u128 << j });
            }
        }
    }
    for len in 0..=1100usize {
        cases.push(Case::Rng { seed: (seed as u128 * 0x9E3779B97F4A7C15 + len as u128).to_le_bytes(), len });
    }
    ctx.extra("systematic_cases", json!(cases.len()));
    enumerate(&ctx, &cases, test_case);
    if !ctx.stopped() {
        prop_search(&ctx, "random", tier.pick(60_000, 6_000_000), gen_random, test_case);
    }
    ctx.finish()
}

pub fn replay(path: &str) -> i32 {
    crate::fw::replay_case::<Case, _>("C20", path, 1, test_case)
}
