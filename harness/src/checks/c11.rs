//! C11 - OT extension delivers exactly the correlated message for every length.
use proptest::prelude::*;
use rand::SeedableRng;
use rand_chacha::ChaCha20Rng;
use serde::{Deserialize, Serialize};
use serde_json::json;

use polytune::bench_reexports::{Block, kos_ot_receiver, kos_ot_sender};

use crate::fw::{CaseInfo, Ctx, Fail, Tier, enumerate, hash_of, prop_search};
use crate::sim::exec::{ExecCfg, Outcome, Task, World, run_world};
use crate::sim::sched::{Mix, SchedSpec};

#[derive(Clone, Debug, Serialize, Deserialize)]
pub struct Case {
    pub len: usize,
    /// 0 = all zero, 1 = all one, 2 = random(seed)
    pub choice_mode: u8,
    pub seed: u64,
    /// lengths of the second (reverse-direction) session; 0 = single session
    pub len2: usize,
    /// which party sends first (party 0 = sender first if true)
    pub sender_first: bool,
    pub cap: usize,
    pub sched: SchedSpec,
}

type Out = (Vec<u128>, Vec<u128>);

pub fn test_case(c: &Case) -> Result<CaseInfo, Fail> {
    let mut mix = Mix(c.seed);
    let choices = |len: usize, mix: &mut Mix, mode: u8| -> Vec<bool> {
        (0..len)
            .map(|_| match mode % 3 {
                0 => false,
                1 => true,
                _ => mix.next() & 1 == 1,
            })
            .collect()
    };
    let deltas = |len: usize, mix: &mut Mix| -> Vec<[u8; 16]> { (0..len).map(|_| ((mix.next() as u128) << 64 | mix.next() as u128).to_le_bytes()).collect() };
    // session A: party 0 sends (deltas d_a), party 1 receives (choices b_a); session B reversed
    let b_a = choices(c.len, &mut mix, c.choice_mode);
    let d_a = deltas(c.len, &mut mix);
    let b_b = choices(c.len2, &mut mix, c.choice_mode.wrapping_add(1));
    let d_b = deltas(c.len2, &mut mix);
    let rng_seed: [u8; 32] = std::array::from_fn(|i| (c.seed >> (i % 8 * 8)) as u8 ^ i as u8);
    let world = World::new(2, if c.cap == 0 { usize::MAX } else { c.cap });
    let mut tasks: Vec<Option<Task<Out>>> = vec![];
    for p in 0..2usize {
        let ch = world.channel(p);
        let (b_a, d_a, b_b, d_b) = (b_a.clone(), d_a.clone(), b_b.clone(), d_b.clone());
        let two = c.len2 > 0;
        let sender_first = c.sender_first;
        tasks.push(Some(Box::pin(async move {
            // both ends use a clone of the same shared generator, as fabitn does
            let mut shared = ChaCha20Rng::from_seed(rng_seed);
            let da: Vec<Block> = d_a.iter().map(|d| Block::from(*d)).collect();
            let db: Vec<Block> = d_b.iter().map(|d| Block::from(*d)).collect();
            let e = |e: polytune::bench_reexports::Block| e;
            let _ = e;
            // role of this party in session A: party 0 is the sender iff sender_first
            let a_sender = (p == 0) == sender_first;
            let mut out_a = vec![];
            let mut out_b = vec![];
            if a_sender {
                out_a = kos_ot_sender(&ch, &da, 1 - p, &mut shared).await.map_err(|e| format!("{e:?}"))?;
                if two {
                    out_b = kos_ot_receiver(&ch, &b_b, 1 - p, &mut shared).await.map_err(|e| format!("{e:?}"))?;
                }
            } else {
                out_a = kos_ot_receiver(&ch, &b_a, 1 - p, &mut shared).await.map_err(|e| format!("{e:?}")).map(|v| {
                    let _ = &out_a;
                    v
                })?;
                if two {
                    out_b = kos_ot_sender(&ch, &db, 1 - p, &mut shared).await.map_err(|e| format!("{e:?}"))?;
                }
            }
            Ok((out_a, out_b))
        })));
    }
    let mut sched = c.sched.build();
    let res = run_world(&world, tasks, sched.as_mut(), &ExecCfg { record_probes: false, ..Default::default() }, || {});
    let (s, r) = if c.sender_first { (0, 1) } else { (1, 0) };
    let (Outcome::Ok(so), Outcome::Ok(ro)) = (&res.outcomes[s], &res.outcomes[r]) else {
        return Err(Fail::new("C11|session-failed", format!("len {} len2 {}: outcomes {:?}", c.len, c.len2, res.outcomes.iter().map(|o| crate::run::short(o)).collect::<Vec<_>>())));
    };
    let check = |send: &[u128], recv: &[u128], b: &[bool], d: &[[u8; 16]], which: &str| -> Result<(), Fail> {
        if send.len() != b.len() || recv.len() != b.len() {
            return Err(Fail::new("C11|length", format!("session {which}: requested {} got sender {} receiver {}", b.len(), send.len(), recv.len())));
        }
        for i in 0..b.len() {
            let want = send[i] ^ if b[i] { u128::from_be_bytes(d[i]) } else { 0 };
            if recv[i] != want {
                return Err(Fail::new("C11|correlation", format!("session {which} (length {}): index {i}, choice {}: receiver has {:032x}, expected {:032x}", b.len(), b[i], recv[i], want)));
            }
        }
        Ok(())
    };
    check(&so.0, &ro.0, &b_a, &d_a, "A")?;
    if c.len2 > 0 {
        // session B: roles swapped
        check(&ro.1, &so.1, &b_b, &d_b, "B")?;
    }
    if res.leftover.iter().any(|l| *l != 0) {
        return Err(Fail::new("C11|leftover", format!("{:?}", res.leftover)));
    }
    let mut classes = vec![format!("choice_mode={}", c.choice_mode % 3)];
    if c.len % 8 != 0 {
        classes.push("len%8!=0".into());
    }
    if c.len % 128 != 0 {
        classes.push("len%128!=0".into());
    }
    if c.len2 > 0 {
        classes.push(if c.sender_first { "two_sessions:sender_first".into() } else { "two_sessions:receiver_first".into() });
    }
    Ok(CaseInfo { nontrivial: Some(hash_of(&serde_json::to_string(c).unwrap())), classes, sample: Some(json!({"len": c.len, "len2": c.len2, "choice_mode": c.choice_mode % 3, "sender_first": c.sender_first, "cap": c.cap, "sched": c.sched.kind()})), ..Default::default() })
}

pub fn run(tier: Tier, seed: u64) -> i32 {
    let ctx = Ctx::new("C11", tier, seed, "exploration");
    ctx.set_rule("systematic: every length 1..300 (thorough: 1..4096) plus 8k+-1 and 128k+-1 up to 4096, cycling choice vectors all-0 / all-1 / random and per-index random correlation blocks; proptest: random lengths 1..4096 x second session of random length in the reverse direction on the same channel with a cloned shared generator (as the aBit protocol does) x both orders x link capacity x schedule; oracle: both sides return the requested length and recv[i] = send[i] XOR (choice_i ? big-endian(corr_i) : 0); distinct by hash of the case");
    let mut lens: Vec<usize> = (1..=tier.pick(300, 4096)).collect();
    for k in (8..=4096).step_by(if tier == Tier::Quick { 264 } else { 8 }) {
        lens.extend([k - 1, k + 1]);
    }
    for k in (128..=4096).step_by(128) {
        lens.extend([k - 1, k, k + 1]);
    }
    lens.sort();
    lens.dedup();
    lens.retain(|l| *l <= 4097);
    let cases: Vec<Case> = lens
        .iter()
        .enumerate()
        .map(|(i, len)| Case { len: *len, choice_mode: ((i as u64 + seed) % 3) as u8, seed: seed.wrapping_mul(31).wrapping_add(i as u64), len2: if i % 4 == 0 { (i * 7) % 200 + 1 } else { 0 }, sender_first: i % 8 < 4, cap: [0, 1, 2][i % 3], sched: SchedSpec::Eager })
        .collect();
    ctx.extra("systematic_lengths", json!(cases.len()));
    enumerate(&ctx, &cases, test_case);
    if !ctx.stopped() {
        let g = || {
            (1usize..=4096, any::<u8>(), any::<u64>(), prop_oneof![Just(0usize), 1usize..=600], any::<bool>(), prop_oneof![Just(0usize), Just(1), Just(2)], crate::gens::gen_sched(2, true))
                .prop_map(|(len, choice_mode, seed, len2, sender_first, cap, sched)| Case { len, choice_mode, seed, len2, sender_first, cap, sched })
        };
        prop_search(&ctx, "random", tier.pick(150, 20000), g, test_case);
    }
    ctx.finish()
}

pub fn replay(path: &str) -> i32 {
    crate::fw::replay_case::<Case, _>("C11", path, 2, test_case)
}
