//! C05 - only designated output parties obtain the result.
use std::collections::BTreeSet;

use serde_json::json;

use crate::circ::CircParams;
use crate::fw::{CaseInfo, Ctx, Fail, Tier, hash_of, prop_search};
use crate::gens::{CaseParams, gen_case};
use crate::run::{Adversary, MpcCase, check_honest_result, run_mpc};
use crate::sim::exec::{ExecCfg, Outcome};
use crate::trace::{decode, some_positions};

const OUTPUT_LABELS: [&str; 2] = ["output wire shares", "lambda"];

pub fn check_history(case: &MpcCase, msgs: &[crate::sim::net::MsgRec]) -> Result<(), Fail> {
    let n = case.n();
    let uniq: BTreeSet<usize> = case.circ.output_regs.iter().map(|r| *r as usize).collect();
    let uniq: Vec<usize> = uniq.into_iter().collect();
    for q in 0..n {
        let to_q: Vec<_> = msgs.iter().filter(|m| m.to == q).collect();
        if !case.p_out.contains(&q) {
            for m in &to_q {
                if OUTPUT_LABELS.contains(&m.label.as_str()) {
                    return Err(Fail::new("C05|output-message-to-non-output-party", format!("party {q} is not in p_out {:?} but was sent {:?} by {}", case.p_out, m.label, m.from)));
                }
            }
            for a in (0..n).filter(|a| *a != q) {
                let last = to_q.iter().filter(|m| m.from == a).last();
                let want = if q == case.p_eval {
                    "labels"
                } else if n == 2 {
                    "masked inputs"
                } else {
                    "broadcast masked inputs"
                };
                match last {
                    Some(m) if m.label == want => {}
                    other => {
                        return Err(Fail::new(
                            "C05|traffic-after-input-processing",
                            format!("last message {a}->{q} is {:?}, expected {want:?} (q not in p_out)", other.map(|m| m.label.clone())),
                        ));
                    }
                }
            }
        } else {
            for m in &to_q {
                if OUTPUT_LABELS.contains(&m.label.as_str()) {
                    // a message the harness' grammar cannot decode is not judged structurally
                    let Some(v) = decode(m) else { continue };
                    let pos = some_positions(&v);
                    if pos != uniq {
                        return Err(Fail::new(
                            "C05|values-for-non-output-wires",
                            format!("{:?} {}->{q} has Some at {:?}, output registers are {:?}", m.label, m.from, pos, uniq),
                        ));
                    }
                }
            }
        }
    }
    for m in msgs {
        if m.label == "lambda" && m.from != case.p_eval {
            return Err(Fail::new("C05|lambda-from-non-evaluator", format!("lambda sent by {}", m.from)));
        }
    }
    Ok(())
}

pub fn test_case(case: &MpcCase) -> Result<CaseInfo, Fail> {
    let run = run_mpc(case, Adversary::default(), &ExecCfg { record_probes: false, ..Default::default() });
    if run.res.outcomes.iter().any(|o| matches!(o, Outcome::Budget)) {
        return Ok(CaseInfo { undecided: true, ..Default::default() });
    }
    check_honest_result(case, &run.res).map_err(|e| Fail::new("C05|wrong-result", e))?;
    check_history(case, &run.res.msgs)?;
    for q in 0..case.n() {
        if !case.p_out.contains(&q) && run.res.leftover[q] != 0 {
            return Err(Fail::new("C05|inbox-not-empty", format!("party {q}")));
        }
    }
    let strict_subset = case.p_out.len() < case.n();
    let mut classes = vec![format!("n={}", case.n()), format!("|p_out|={}", case.p_out.len())];
    classes.push(if case.p_out.contains(&case.p_eval) { "eval_in_p_out".into() } else { "eval_not_in_p_out".into() });
    if case.circ.features().reuse {
        classes.push("register_reuse".into());
    }
    Ok(CaseInfo {
        nontrivial: strict_subset.then(|| hash_of(&serde_json::to_string(case).unwrap())),
        classes,
        sample: Some(json!({"n": case.n(), "p_eval": case.p_eval, "p_out": case.p_out, "outputs": case.circ.output_regs, "max_reg_count": case.circ.max_reg_count, "ands": case.circ.and_ops})),
        ..Default::default()
    })
}

/// A curious output party marks registers that are no outputs in the share message it sends to the
/// evaluator: what the honest parties send must still be confined to the output registers.
pub fn test_curious(case: &MpcCase) -> Result<CaseInfo, Fail> {
    use crate::adv::{AttackCase, Fault, Target, run_attack};
    use crate::wire::{MsgMut, TreeMut};
    let n = case.n();
    let Some(curious) = case.p_out.iter().copied().find(|p| *p != case.p_eval) else { return Ok(CaseInfo::default()) };
    let uniq: BTreeSet<usize> = case.circ.output_regs.iter().map(|r| *r as usize).collect();
    let others: Vec<usize> = (0..case.circ.max_reg_count).filter(|r| !uniq.contains(r)).collect();
    if others.is_empty() || !case.p_out.contains(&case.p_eval) {
        return Ok(CaseInfo { classes: vec!["curious:not-applicable".into()], ..Default::default() });
    }
    let mut marks = vec![others[0], others[others.len() / 2], others[others.len() - 1]];
    marks.dedup();
    let faults = vec![Fault { target: Target::Label { label: "output wire shares".into(), occ: Some(0), to: Some(case.p_eval) }, mutation: MsgMut::Multi(marks.iter().map(|r| (vec![*r], TreeMut::ToggleOpt)).collect()) }];
    let run = run_attack(&AttackCase { faults, ..AttackCase::honest(case.clone(), curious) }, &ExecCfg { record_probes: false, ..Default::default() });
    let uniq: Vec<usize> = uniq.into_iter().collect();
    let mut tampered = false;
    for m in &run.res.msgs {
        tampered |= m.tampered && m.consumed;
        if m.from != curious && OUTPUT_LABELS.contains(&m.label.as_str()) {
            if !case.p_out.contains(&m.to) {
                return Err(Fail::new("C05|output-message-to-non-output-party|curious", format!("party {} is not in p_out but was sent {:?} by {} after party {curious} marked extra registers", m.to, m.label, m.from)));
            }
            let Some(v) = decode(m) else { continue };
            let pos = some_positions(&v);
            if pos.iter().any(|r| !uniq.contains(r)) {
                return Err(Fail::new(
                    "C05|values-for-non-output-wires|curious",
                    format!("output party {curious} marked the registers {marks:?} (no outputs) in its share message to the evaluator; {:?} {}->{} then carries values at {:?}, output registers are {:?}", m.label, m.from, m.to, pos, uniq),
                ));
            }
        }
    }
    Ok(CaseInfo {
        nontrivial: tampered.then(|| hash_of(&(serde_json::to_string(case).unwrap(), "curious"))),
        classes: vec![format!("curious:n={n}")],
        sample: Some(json!({"curious_output_party": curious, "marked_registers": marks, "n": n, "p_eval": case.p_eval, "p_out": case.p_out})),
        ..Default::default()
    })
}

pub fn run(tier: Tier, seed: u64) -> i32 {
    let ctx = Ctx::new("C05", tier, seed, "exploration");
    ctx.set_rule("proptest: circuits with register reuse x n in 2..4 x every p_eval x every non-empty p_out subset; invariant over the recorded traffic: a party outside p_out returns [], is never addressed an 'output wire shares' or 'lambda' message, the last message on every link towards it is the final input-processing message, its inbox ends empty; for members of p_out the decoded output messages carry Some exactly at the set of unique output registers; lambda only from the evaluator; plus a curious output party that marks registers which are no outputs in the share message it sends to the evaluator: everything the honest parties send in the output phase stays confined to the output registers and to members of p_out. non-trivial = p_out is a strict subset of the parties; distinct by hash of the case");
    ctx.assume("leak detection is by label, position and decoded structure of the traffic, not information-theoretic");
    let cp = CaseParams { circ: CircParams { n_min: 2, n_max: 4, max_gates: 30, ..Default::default() }, all_scheds: false, caps: vec![0, 1], tmp: false };
    prop_search(&ctx, "c05", tier.pick(320, 12000), || gen_case(cp.clone()), |c| match test_case(c) {
        Err(f) if f.signature.starts_with("INFRA") => {
            ctx.infra(f.msg.clone());
            Ok(CaseInfo::default())
        }
        r => r,
    });
    if !ctx.stopped() {
        prop_search(&ctx, "c05curious", tier.pick(160, 6000), || gen_case(cp.clone()), test_curious);
    }
    if !ctx.stopped() {
        let wide = CaseParams { circ: CircParams::wide(2, 4), all_scheds: false, caps: vec![0], tmp: false };
        prop_search(&ctx, "c05wide", tier.pick(24, 1200), || gen_case(wide.clone()), |c| match test_case(c) {
            Err(f) if f.signature.starts_with("INFRA") => {
                ctx.infra(f.msg.clone());
                Ok(CaseInfo::default())
            }
            r => r,
        });
    }
    ctx.finish()
}

pub fn replay(path: &str) -> i32 {
    crate::fw::replay_case::<MpcCase, _>("C05", path, 3, |c| test_case(c).and_then(|i| test_curious(c).map(|_| i)))
}
