//! C02 - a malicious peer can never make an honest party accept a wrong output.
use serde::{Deserialize, Serialize};
use serde_json::json;

use crate::adv::{AttackCase, Fault, TapAction, TapSpec, Target, allowed_outputs, run_attack, soundness, tampered_consumed};
use crate::circ::{CircSpec, GOp};
use crate::fw::{CaseInfo, Ctx, Fail, Tier, enumerate, hash_of};
use crate::run::{Adversary, MpcCase, run_mpc};
use crate::sim::exec::{ExecCfg, Outcome};
use crate::trace::{check_codec, decode};
use crate::wire::{ByteMut, MsgMut, TreeMut, muts_for, paths};

#[derive(Clone, Debug, Serialize, Deserialize)]
pub struct Case {
    pub attack: AttackCase,
    pub label: String,
    pub repeat: usize,
}

/// Circuit family: every party has 2 input bits; outputs contain, for every party, a pass-through
/// of its first bit (so the allowed set is a strict subset of {0,1}^out whatever the cheater
/// substitutes), AND / MUX / equality mixes of honest and corrupted bits, and a duplicated output.
pub fn family(n: usize, which: usize) -> CircSpec {
    let mut insts = vec![];
    let mut r = 0u32;
    for p in 0..n {
        for i in 0..2 {
            insts.push((r, GOp::Input { party: p as u32, input: i }));
            r += 1;
        }
    }
    let x = |p: usize, i: usize| (2 * p + i) as u32;
    let base = r;
    let mut outs: Vec<u32> = (0..n).map(|p| x(p, 0)).collect();
    let mut ands = 0;
    match which % 3 {
        0 => {
            // t0 = x00 & x10 ; t1 = (x01 ^ x11) & t0 ; t2 = !t1
            insts.push((base, GOp::And(x(0, 0), x(1, 0))));
            insts.push((base + 1, GOp::Xor(x(0, 1), x(1, 1))));
            insts.push((base + 2, GOp::And(base + 1, base)));
            insts.push((base + 3, GOp::Not(base + 2)));
            ands += 2;
            outs.extend([base, base + 2, base + 3, base]);
        }
        1 => {
            // mux: s = x_{n-1,0}; out = s ? x01 : x11  = x11 ^ (s & (x01 ^ x11)); plus OR of first bits
            let s = x(n - 1, 0);
            insts.push((base, GOp::Xor(x(0, 1), x(1, 1))));
            insts.push((base + 1, GOp::And(s, base)));
            insts.push((base + 2, GOp::Xor(base + 1, x(1, 1))));
            // or = !( !a & !b )
            insts.push((base + 3, GOp::Not(x(0, 0))));
            insts.push((base, GOp::Not(x(1, 0)))); // register reuse
            insts.push((base + 1, GOp::And(base + 3, base)));
            insts.push((base + 1, GOp::Not(base + 1)));
            ands += 2;
            outs.extend([base + 2, base + 1]);
        }
        _ => {
            // equality of the 2-bit inputs of parties 0 and 1, and x(n-1,1) & eq
            insts.push((base, GOp::Xor(x(0, 0), x(1, 0))));
            insts.push((base, GOp::Not(base)));
            insts.push((base + 1, GOp::Xor(x(0, 1), x(1, 1))));
            insts.push((base + 1, GOp::Not(base + 1)));
            insts.push((base + 2, GOp::And(base, base + 1)));
            insts.push((base + 3, GOp::And(base + 2, x(n - 1, 1))));
            ands += 2;
            outs.extend([base + 2, base + 3, x(n - 1, 1)]);
        }
    }
    CircSpec { input_regs: vec![2; n], insts, max_reg_count: base as usize + 4, output_regs: outs, and_ops: ands }
}

fn is_online(label: &str) -> bool {
    matches!(label, "preprocessed gates" | "wire shares" | "masked inputs" | "broadcast masked inputs" | "labels" | "output wire shares" | "lambda")
}

fn inputs_for(n: usize, code: usize) -> Vec<Vec<bool>> {
    (0..n).map(|p| vec![code >> (2 * p) & 1 == 1, code >> (2 * p + 1) & 1 == 1]).collect()
}

pub fn role_configs(tier: Tier) -> Vec<(usize, usize, usize, Vec<usize>)> {
    // (n, corrupt, p_eval, p_out)
    let mut v = vec![];
    for corrupt in 0..2 {
        for p_eval in 0..2 {
            v.push((2, corrupt, p_eval, vec![0, 1]));
        }
    }
    v.push((2, 0, 0, vec![1]));
    v.push((2, 1, 0, vec![0]));
    let n3 = tier.pick(vec![(1, 0), (0, 0)], vec![(0, 0), (1, 0), (2, 0), (0, 1), (1, 1), (1, 2)]);
    for (c, e) in n3 {
        v.push((3, c, e, vec![0, 1, 2]));
    }
    v
}

fn tap_cases(base: &MpcCase, corrupt: usize) -> Vec<Case> {
    let mut v = vec![];
    let mk = |site: &str, idx: Option<usize>, label: &str, repeat: usize| Case {
        attack: AttackCase { taps: vec![TapSpec { site: site.into(), idx, action: TapAction::Flip }], ..AttackCase::honest(base.clone(), corrupt) },
        label: label.into(),
        repeat,
    };
    // negative control: consistent substitution of the cheater's own input bits
    let first_input = 2 * corrupt;
    v.push(mk("own_input", Some(first_input), "tap:own_input", 1));
    v.push(mk("own_input", None, "tap:own_input", 1));
    v.push(mk("dvalue_share", Some(0), "tap:dvalue_share", 2));
    v.push(mk("dvalue_share", None, "tap:dvalue_share", 2));
    v.push(mk("beaver_d", Some(0), "tap:beaver_d", 2));
    v.push(mk("beaver_e", None, "tap:beaver_e", 2));
    v.push(mk("fashare_dm", Some(0), "tap:fashare_dm", 1));
    v.push(mk("fashare_dm", None, "tap:fashare_dm", 1));
    for a in [TapAction::Bytes(ByteMut::Empty), TapAction::Bytes(ByteMut::Truncate(1)), TapAction::Bytes(ByteMut::Truncate(17)), TapAction::Bytes(ByteMut::Extend(16))] {
        let mut c = mk("fashare_dm_vec", Some(0), "tap:fashare_dm_vec", 1);
        c.attack.taps[0].action = a;
        v.push(c);
    }
    if corrupt != base.p_eval {
        for w in 0..base.circ.insts.len() {
            if matches!(base.circ.insts[w].1, GOp::And(..)) {
                v.push(mk("garble_row", Some(w * 4), "tap:garble_row", 2));
                v.push(mk("garble_row", None, "tap:garble_row", 2));
                break;
            }
        }
        // attacker-chosen plaintext of the garbled rows (below the encryption): value bit, one MAC
        // bit, one label bit, and every MAC-vector length
        let n = base.n();
        let plain_len = 9 + 16 * n + 16;
        let at = |k: usize| {
            let mut p = vec![0u8; plain_len];
            p[k] = 1;
            TapAction::XorBytes(p)
        };
        let mut acts = vec![at(0), at(plain_len - 1), at(plain_len - 16)];
        for q in 0..n {
            acts.push(at(9 + 16 * q));
        }
        for k in 0..=n {
            acts.push(TapAction::RowMacs(k));
        }
        for a in acts {
            let mut c = mk("garble_plain", None, "tap:garble_plain", 2);
            c.attack.taps[0].action = a;
            v.push(c);
        }
    }
    v
}

fn flip_leaves(v: &crate::wire::Val, prefix: &mut Vec<usize>, out: &mut Vec<(Vec<usize>, TreeMut)>) {
    use crate::wire::Val;
    match v {
        Val::Bool(_) | Val::U8(_) | Val::U32(_) | Val::U128(_) | Val::B16(_) => out.push((prefix.clone(), TreeMut::FlipBit(0))),
        Val::Opt(Some(x)) => {
            prefix.push(0);
            flip_leaves(x, prefix, out);
            prefix.pop();
        }
        Val::Tup(xs) | Val::Seq(xs) => {
            for (i, x) in xs.iter().enumerate().take(6) {
                prefix.push(i);
                flip_leaves(x, prefix, out);
                prefix.pop();
            }
        }
        _ => {}
    }
}

/// Rushing adversary: in every round in which all parties send each other a message with the same
/// label, the cheater waits for the honest messages and answers with their XOR (n = 2: reflects the
/// victim's message) - alone, and combined with a value change in one of the three message kinds it
/// sent before that round (all leaves of one element flipped, every occurrence or the first only).
fn rush_cases(base: &MpcCase, corrupt: usize, msgs: &[crate::sim::net::MsgRec]) -> Vec<Case> {
    use crate::adv::RushSpec;
    let n = base.n();
    let mut labels: Vec<String> = vec![];
    for m in msgs.iter().filter(|m| m.from == corrupt) {
        if !labels.contains(&m.label) {
            labels.push(m.label.clone());
        }
    }
    let mut out = vec![];
    let is_sym = |l: &String| (0..n).filter(|j| *j != corrupt).all(|j| msgs.iter().any(|m| m.from == j && m.to == corrupt && m.label == *l));
    let mut sets: Vec<(usize, Vec<String>)> = vec![];
    for (li, l) in labels.iter().enumerate() {
        if !is_sym(l) {
            continue;
        }
        sets.push((li, vec![l.clone()]));
        // two consecutive symmetric rounds (a commitment round and its opening) both reflected
        if let Some(l2) = labels.get(li + 1).filter(|l2| is_sym(l2)) {
            sets.push((li, vec![l.clone(), l2.clone()]));
            if let Some(l3) = labels.get(li + 2).filter(|l3| is_sym(l3)) {
                sets.push((li, vec![l.clone(), l2.clone(), l3.clone()]));
            }
        }
    }
    for (li, ls) in sets {
        let l = ls.join("+");
        let rush: Vec<RushSpec> = ls.iter().map(|x| RushSpec { label: x.clone(), occ: None }).collect();
        let mk = |faults: Vec<Fault>| Case { attack: AttackCase { faults, rush: rush.clone(), ..AttackCase::honest(base.clone(), corrupt) }, label: format!("rush:{l}"), repeat: 1 };
        out.push(mk(vec![]));
        for prev in labels[li.saturating_sub(3)..li].iter() {
            let Some(pm) = msgs.iter().find(|m| m.from == corrupt && m.label == *prev) else { continue };
            let Some(crate::wire::Val::Seq(elems)) = decode(pm) else { continue };
            if elems.is_empty() {
                continue;
            }
            let mut idxs = vec![0usize];
            if elems.len() > 1 {
                idxs.push(elems.len() - 1);
            }
            for i in idxs {
                let mut leaves = vec![];
                flip_leaves(&elems[i], &mut vec![i], &mut leaves);
                if leaves.is_empty() {
                    continue;
                }
                for occ in [None, Some(0)] {
                    out.push(mk(vec![Fault { target: Target::Label { label: prev.clone(), occ, to: None }, mutation: MsgMut::Multi(leaves.clone()) }]));
                }
                if i == 0 && leaves.len() > 1 {
                    for lf in leaves.iter().take(4) {
                        out.push(mk(vec![Fault { target: Target::Label { label: prev.clone(), occ: None, to: None }, mutation: MsgMut::Tree { path: lf.0.clone(), m: lf.1.clone() } }]));
                    }
                }
            }
        }
    }
    out
}

pub fn enumerate_cases(base: &MpcCase, corrupt: usize, tree_cap: usize, tier: Tier) -> Result<Vec<Case>, String> {
    let tmpl = run_mpc(base, Adversary::default(), &ExecCfg { record_probes: false, ..Default::default() });
    if let Err(e) = check_codec(&tmpl.res.msgs) {
        eprintln!("note: wire grammar is stale for this tree ({e}); falling back to byte-level mutation for such messages");
    }
    if !tmpl.res.outcomes.iter().all(|o| o.is_ok()) {
        return Err("template run failed".into());
    }
    let n = base.n();
    let mut cases = vec![];
    for m in tmpl.res.msgs.iter().filter(|m| m.from == corrupt) {
        let online = is_online(&m.label);
        let repeat = if online { 4 } else { 1 };
        // per-recipient targeting (equivocation) comes for free: SenderIdx addresses one copy.
        // For n=3 quick, preprocessing messages towards the second recipient are sampled by the all-recipient variant below.
        let k = m.sender_idx;
        let mk = |mu: MsgMut, target: Target| {
            let omission = matches!(&mu, MsgMut::Tree { m: TreeMut::ToggleOpt | TreeMut::LenMinus1 | TreeMut::LenZero | TreeMut::LenOne | TreeMut::SwapEnds, .. });
            Case { attack: AttackCase { faults: vec![Fault { target, mutation: mu }], ..AttackCase::honest(base.clone(), corrupt) }, label: m.label.clone(), repeat: if omission { repeat } else { 1 } }
        };
        let second_copy = n > 2 && m.to != (corrupt + 1) % n;
        if second_copy && !online && tier == Tier::Quick {
            continue;
        }
        let l = m.wire.len() as u32;
        for bm in [ByteMut::FlipBit(l * 4 + 1), ByteMut::Truncate(l.saturating_sub(1)), ByteMut::VecShrink(1), ByteMut::VecShrink(u32::MAX)] {
            cases.push(mk(MsgMut::Bytes(bm), Target::SenderIdx(k)));
        }
        cases.push(mk(MsgMut::Drop, Target::SenderIdx(k)));
        if let Some(crate::wire::Val::Seq(elems)) = decode(m) {
            // the same leaf altered in two elements of one message (checks aggregated by XOR), and
            // one element / every element with all its leaves zeroed or set to ones (a value that a
            // receiver could mistake for "nothing to verify")
            let present: Vec<usize> = elems.iter().enumerate().filter(|(_, e)| !matches!(e, crate::wire::Val::Opt(None))).map(|(i, _)| i).collect();
            if present.len() >= 2 {
                let (a, b) = (present[0], present[present.len() - 1]);
                let mut la = vec![];
                flip_leaves(&elems[a], &mut vec![a], &mut la);
                for (pa, mu) in la.iter().take(6) {
                    let mut pb = pa.clone();
                    pb[0] = b;
                    cases.push(mk(MsgMut::Multi(vec![(pa.clone(), mu.clone()), (pb, mu.clone())]), Target::SenderIdx(k)));
                }
            }
            for fill in [TreeMut::Zero, TreeMut::Ones] {
                let mut all = vec![];
                for &i in present.iter().take(8) {
                    let mut l = vec![];
                    flip_leaves(&elems[i], &mut vec![i], &mut l);
                    let one: Vec<(Vec<usize>, TreeMut)> = l.into_iter().map(|(p, _)| (p, fill.clone())).collect();
                    if i == present[0] || Some(&i) == present.last() {
                        cases.push(mk(MsgMut::Multi(one.clone()), Target::SenderIdx(k)));
                    }
                    all.extend(one);
                }
                if !all.is_empty() && (online || tier == Tier::Thorough) {
                    let mut c = mk(MsgMut::Multi(all), Target::SenderIdx(k));
                    c.repeat = repeat;
                    cases.push(c);
                }
            }
        }
        if let Some(v) = decode(m) {
            for p in paths(&v, tree_cap) {
                let node = crate::wire::get(&v, &p).unwrap();
                for tm in muts_for(node) {
                    // skip pure garbage classes that C08 covers; keep value changes and omissions
                    if matches!(tm, TreeMut::SetByte(_) | TreeMut::LenPlus1 | TreeMut::Zero) && !online {
                        continue;
                    }
                    cases.push(mk(MsgMut::Tree { path: p.clone(), m: tm.clone() }, Target::SenderIdx(k)));
                    // consistent tampering towards all recipients / persistent over all occurrences
                    if n > 2 && !second_copy && (online || p.len() <= 2) {
                        cases.push(mk(MsgMut::Tree { path: p.clone(), m: tm }, Target::Label { label: m.label.clone(), occ: None, to: None }));
                    }
                }
            }
        }
    }
    cases.extend(tap_cases(base, corrupt));
    if n == 2 || tier == Tier::Thorough {
        cases.extend(rush_cases(base, corrupt, &tmpl.res.msgs));
    }
    Ok(cases)
}

pub fn test_case(case: &Case) -> Result<CaseInfo, Fail> {
    let mut info = CaseInfo::default();
    let a = &case.attack;
    let allowed = allowed_outputs(&a.base, a.corrupt);
    let out_bits = a.base.circ.output_regs.len();
    let strict = (allowed.len() as u128) < (1u128 << out_bits.min(100));
    let mut consumed_any = false;
    let mut classes = vec![];
    for rep in 0..case.repeat.max(1) {
        let run = run_attack(a, &ExecCfg { record_probes: false, step_budget: 400_000, slow_sends: false });
        let res = &run.res;
        if let Err(e) = soundness(a, &res.outcomes) {
            let mclass = a.faults.first().map(|f| crate::checks::c08::tree_mut_name(&f.mutation)).unwrap_or_else(|| "tap".into());
            return Err(Fail::new(
                format!("C02|wrong-output|{}|{}", case.label, mclass),
                format!("{e}; corrupt party {} (p_eval {}, p_out {:?}), message {:?}, fault {:?} taps {:?} rush {:?}, attempt {rep}", a.corrupt, a.base.p_eval, a.base.p_out, case.label, a.faults, a.taps, a.rush),
            ));
        }
        let consumed = tampered_consumed(&res.msgs, a.corrupt) || !a.taps.is_empty() || (!a.rush.is_empty() && res.msgs.iter().any(|m| m.held && m.consumed)) || a.faults.iter().any(|f| matches!(f.mutation, MsgMut::Drop));
        consumed_any |= consumed;
        if rep == 0 {
            let oc: Vec<&str> = a.honest_parties().iter().map(|p| res.outcomes[*p].class()).collect();
            classes.push(format!("outcome={}", oc.join("+")));
            if a.honest_parties().iter().any(|p| matches!(res.outcomes[*p], Outcome::Ok(_))) && consumed {
                classes.push("honest_ok_after_consumed_tamper".into());
            }
        }
        info.extra_runs += 1;
    }
    info.extra_runs -= 1;
    classes.push(format!("label={}", case.label));
    classes.push(format!("n={}", a.base.n()));
    info.classes = classes;
    info.nontrivial = (consumed_any && strict).then(|| hash_of(&serde_json::to_string(a).unwrap()));
    info.sample = Some(json!({"n": a.base.n(), "corrupt": a.corrupt, "p_eval": a.base.p_eval, "p_out": a.base.p_out, "honest_inputs": a.base.inputs, "label": case.label, "faults": a.faults, "taps": a.taps, "rush": a.rush, "allowed_set_size": allowed.len(), "output_bits": out_bits}));
    Ok(info)
}

pub fn all_cases(tier: Tier, seed: u64) -> Result<Vec<Case>, String> {
    let mut all = vec![];
    let mut ci = seed as usize;
    for (n, corrupt, p_eval, p_out) in role_configs(tier) {
        let fams: Vec<usize> = tier.pick(vec![ci % 3], vec![0, 1, 2]);
        ci += 1;
        for fam in fams {
            let circ = family(n, fam);
            let base = MpcCase::simple(circ, inputs_for(n, 0b101101), p_eval, p_out.clone());
            let mut cases = enumerate_cases(&base, corrupt, tier.pick(2, 4), tier)?;
            // honest inputs: exhaustive over the honest parties' bits in thorough, rotated per case in quick
            let honest_bits = 2 * (n - 1);
            let combos = 1usize << honest_bits;
            if tier == Tier::Thorough && n == 2 {
                let orig = cases.clone();
                cases.clear();
                for code in 0..combos {
                    for c in &orig {
                        let mut c = c.clone();
                        c.attack.base.inputs = spread_inputs(n, corrupt, code, 0b01);
                        cases.push(c);
                    }
                }
            } else {
                for (i, c) in cases.iter_mut().enumerate() {
                    let code = (i + seed as usize) % combos;
                    c.attack.base.inputs = spread_inputs(n, corrupt, code, (i / combos) % 4);
                }
            }
            // quick tier: all online-phase cases and taps, every 4th preprocessing case (rotating with the seed)
            if tier == Tier::Quick {
                let mut k = 0usize;
                cases.retain(|c| {
                    k += 1;
                    is_online(&c.label) || c.label.starts_with("tap:") || c.label.starts_with("rush:") || (k + seed as usize) % 4 == 0
                });
                for c in cases.iter_mut() {
                    if c.repeat > 3 {
                        c.repeat = 3;
                    }
                }
            }
            all.extend(cases);
        }
    }
    Ok(all)
}

/// honest parties' bits from `code`, corrupted party's bits from `cbits`
fn spread_inputs(n: usize, corrupt: usize, code: usize, cbits: usize) -> Vec<Vec<bool>> {
    let mut v = vec![];
    let mut k = 0;
    for p in 0..n {
        if p == corrupt {
            v.push(vec![cbits & 1 == 1, cbits >> 1 & 1 == 1]);
        } else {
            v.push(vec![code >> k & 1 == 1, code >> (k + 1) & 1 == 1]);
            k += 2;
        }
    }
    v
}

pub fn run(tier: Tier, seed: u64) -> i32 {
    let ctx = Ctx::new("C02", tier, seed, "fault_enumeration");
    ctx.set_rule("systematic enumeration: corrupted party = each single party (as evaluator and as garbler, n=2 all role assignments, n=3 sampled; output set with and without the cheater) x every message it sends x value-changing and omitting mutations on the decoded value tree (every bool flipped, every Option toggled, every 128-bit field bit-flipped/randomised, every sequence shortened/emptied at each nesting level; the same leaf altered in two elements of one message; one element / all elements zeroed or set to ones), bit flips / truncation on the raw bytes, drops, per-recipient and all-recipient (n=3), plus armed taps (consistent lies about own input [negative control], own d-value share, own Beaver d/e share, garbled row share bit, attacker-chosen garbled row plaintext [value bit / MAC / label bit flipped, MAC vector of every length], aShare decommitment), plus a rushing cheater (n=2; n=3 in thorough): in every symmetric round - and in every two or three consecutive symmetric rounds (a commitment round and its openings) - it waits for the honest messages and answers with their XOR / reflection, alone and combined with a value change in one of the three message kinds sent before that round; honest inputs enumerated (rotating per case in quick, exhaustive in thorough); online-phase omissions repeated 4x because their effect depends on a coin; oracle: allowed set {f(x_honest, x')} by exhaustive enumeration of the cheater's input bits with the clear-text interpreter; every honest Ok must lie in it and all honest Oks agree; non-trivial = altered message consumed by an honest party (or tap/drop) and allowed set a strict subset of {0,1}^out; evaluations counts engine executions");
    ctx.assume("single corrupted party; adversary = honest code + outbound proxy + taps (DESIGN 2.3)");
    let all = match all_cases(tier, seed) {
        Ok(a) => a,
        Err(e) => {
            ctx.infra(e);
            return ctx.finish();
        }
    };
    ctx.extra("enumerated_cases", json!(all.len()));
    enumerate(&ctx, &all, test_case);
    ctx.finish()
}

pub fn replay(path: &str) -> i32 {
    crate::fw::replay_case::<Case, _>("C02", path, 8, |c| {
        let mut c = c.clone();
        c.repeat = 1;
        test_case(&c)
    })
}
