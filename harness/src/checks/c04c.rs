//! C04 (c): challenge-after-data / no reuse - predictor over the transcript.
//!
//! From the coin-toss openings seen on the wire the harness recomputes the public coins and
//! compares them with probes of the challenges actually used.  An alarm needs an exact 128-bit
//! (or full-permutation) match AND every opening having been sent before the data under check.
use proptest::prelude::*;
use rand::seq::SliceRandom;
use rand::{RngCore, SeedableRng};
use rand_chacha::ChaCha20Rng;
use serde::{Deserialize, Serialize};
use serde_json::json;

use crate::circ::{CircParams, gen_circuit};
use crate::fw::{CaseInfo, Ctx, Fail, Tier, hash_of, prop_search};
use crate::gens::gen_sched;
use crate::run::{Adversary, MpcCase, check_honest_result, run_mpc};
use crate::sim::exec::{ExecCfg, RunResult};
use crate::sim::net::MsgRec;

#[derive(Clone, Copy, Debug, PartialEq, Eq, Serialize, Deserialize)]
pub enum Which {
    KosChi,
    KosChiReuse,
    BucketPerm,
    ABitCombos,
}

#[derive(Clone, Debug, Serialize, Deserialize)]
pub struct PredCase {
    pub predictor: bool,
    pub which: Which,
    pub base: MpcCase,
}

fn opening(msgs: &[MsgRec], from: usize, to: usize, occ: usize) -> Option<(&MsgRec, [u8; 32])> {
    let m = msgs.iter().find(|m| m.from == from && m.to == to && m.label == "RNG ver" && m.label_occ == occ)?;
    // Vec<u8> of length 32: u64 length prefix + bytes
    if m.wire.len() != 40 {
        return None;
    }
    Some((m, m.wire[8..40].try_into().ok()?))
}

fn be128(b: [u8; 16]) -> u128 {
    u128::from_be_bytes(b)
}

pub fn test_pred(c: &PredCase) -> Result<CaseInfo, Fail> {
    let run = run_mpc(&c.base, Adversary::default(), &ExecCfg { record_probes: true, ..Default::default() });
    check_honest_result(&c.base, &run.res).map_err(|e| Fail::new("C04|pred|wrong-result", e))?;
    let n = c.base.n();
    let res: &RunResult<Vec<bool>> = &run.res;
    let msgs = &res.msgs;
    let abit_calls = res.probes.iter().filter(|p| p.site == "abit_r0" && p.party == 0).count();
    let nontrivial = abit_calls >= 2 && c.base.circ.and_ops >= 4;
    let info = |extra: serde_json::Value| CaseInfo {
        nontrivial: nontrivial.then(|| hash_of(&(res.trace_hash, c.which as u8))),
        classes: vec![format!("pred:{:?}", c.which), format!("pred:n={n}")],
        sample: Some(json!({"sub": "challenge-predictor", "which": format!("{:?}", c.which), "n": n, "ands": c.base.circ.and_ops, "abit_calls": abit_calls, "detail": extra})),
        ..Default::default()
    };
    // multi-party seed: XOR of every party's opening (occurrence 1 on every link)
    let mut multi = [0u8; 32];
    let mut multi_last_open = 0u64;
    for p in 0..n {
        let to = (p + 1) % n;
        let Some((m, b)) = opening(msgs, p, to, 1) else { return Ok(info(json!("no multi opening"))) };
        for i in 0..32 {
            multi[i] ^= b[i];
        }
        // the opening is public once it has been sent to anyone: take the latest first-send over parties
        let first_send = msgs.iter().filter(|x| x.from == p && x.label == "RNG ver" && x.label_occ == 1).map(|x| x.seq_sent).min().unwrap_or(m.seq_sent);
        multi_last_open = multi_last_open.max(first_send);
    }
    match c.which {
        Which::KosChi | Which::KosChiReuse => {
            for a in 0..n {
                for b in a + 1..n {
                    let (Some((ma, sa)), Some((mb, sb))) = (opening(msgs, a, b, 0), opening(msgs, b, a, 0)) else { continue };
                    let seed: [u8; 32] = std::array::from_fn(|i| sa[i] ^ sb[i]);
                    let mut rng = ChaCha20Rng::from_seed(seed);
                    let mut chi = [0u8; 16];
                    rng.fill_bytes(&mut chi);
                    let predicted = be128(chi);
                    // first KOS session of each aBit call between a and b: a is the OT sender first
                    let chis: Vec<u128> = res.probes.iter().filter(|p| p.site == "kos_chi_sender" && p.party == a).map(|p| p.val).collect();
                    // with n > 2 party a runs one sender session per peer and call; the probe does not carry the peer,
                    // so only an exact match of some probe with the prediction counts
                    let opened_at = ma.seq_sent.max(mb.seq_sent);
                    if c.which == Which::KosChi {
                        // data under check: the first correlation matrix sent towards a in the first session (from b)
                        let data = msgs.iter().find(|m| m.from == b && m.to == a && m.label == "ALSZ_OT_setup");
                        if let Some(d) = data {
                            if chis.contains(&predicted) && opened_at < d.seq_sent {
                                return Err(Fail::new(
                                    "C04|kos-chi-predictable",
                                    format!("pair ({a},{b}): first KOS check coefficient {predicted:032x} is computable from the coin-toss openings (last one sent at event {opened_at}) before the correlation data it checks is sent (event {})", d.seq_sent),
                                ));
                            }
                        }
                    } else if n == 2 && chis.len() >= 2 && chis[0] == chis[1] {
                        return Err(Fail::new("C04|kos-chi-reused", format!("pair ({a},{b}): aBit calls 1 and 2 use the same first KOS check coefficient {:032x}", chis[0])));
                    } else if n > 2 {
                        let mut s = chis.clone();
                        s.sort();
                        let dup = s.windows(2).filter(|w| w[0] == w[1]).count();
                        if dup > 0 && chis.iter().filter(|x| **x == predicted).count() >= 2 {
                            return Err(Fail::new("C04|kos-chi-reused", format!("pair ({a},{b}): the first KOS check coefficient {predicted:032x} is used in more than one aBit call")));
                        }
                    }
                }
            }
            Ok(info(json!("no exact match")))
        }
        Which::BucketPerm => {
            let Some(perm) = res.probes.iter().find(|p| p.site == "bucket_perm" && p.party == 0) else { return Ok(info(json!("no AND gates"))) };
            let len = perm.data.len();
            if len < 20 {
                return Ok(info(json!("permutation shorter than 20")));
            }
            let first_flaand = msgs.iter().filter(|m| m.label == "flaand").map(|m| m.seq_sent).min().unwrap_or(0);
            for k in 0..16 {
                let mut rng = ChaCha20Rng::from_seed(multi);
                let mut skip = [0u8; 16];
                for _ in 0..k {
                    rng.fill_bytes(&mut skip);
                }
                let mut idx: Vec<usize> = (0..len).collect();
                idx.shuffle(&mut rng);
                if idx.iter().map(|x| *x as u64).eq(perm.data.iter().copied()) && multi_last_open < first_flaand {
                    return Err(Fail::new(
                        "C04|bucket-perm-predictable",
                        format!("the bucket assignment of {len} leaky AND triples equals the permutation computable from the multi-party coin-toss openings (after {k} 16-byte draws); last opening sent at event {multi_last_open}, first leaky-AND data at event {first_flaand}"),
                    ));
                }
            }
            Ok(info(json!("no permutation match")))
        }
        Which::ABitCombos => {
            let r0s: Vec<u128> = res.probes.iter().filter(|p| p.site == "abit_r0" && p.party == 0).map(|p| p.val).collect();
            // data under check of the first aBit call: its OT correction messages
            let first_corr = msgs.iter().filter(|m| m.label == "KOS_OT_corr").map(|m| m.seq_sent).min().unwrap_or(0);
            for k in 0..16 {
                let mut rng = ChaCha20Rng::from_seed(multi);
                let mut skip = [0u8; 16];
                for _ in 0..k {
                    rng.fill_bytes(&mut skip);
                }
                let mut seed = [0u8; 16];
                rng.fill_bytes(&mut seed);
                let first = polytune::verif::aes_rng_fill(seed, 16);
                let predicted = be128(first.try_into().unwrap());
                if let Some(call) = r0s.iter().position(|x| *x == predicted) {
                    if multi_last_open < first_corr {
                        return Err(Fail::new(
                            "C04|abit-combos-predictable",
                            format!("the random combinations of the aBit test (call {call}) are computable from the multi-party coin-toss openings (after {k} draws) before any aBit data is sent (openings by event {multi_last_open}, first OT correction at event {first_corr})"),
                        ));
                    }
                }
            }
            Ok(info(json!("no match")))
        }
    }
}

fn gen_pred() -> impl Strategy<Value = PredCase> {
    let cp = CircParams { n_min: 2, n_max: 3, max_gates: 14, and_weight: 200, ..Default::default() };
    (gen_circuit(cp), prop_oneof![Just(Which::KosChi), Just(Which::KosChiReuse), Just(Which::BucketPerm), Just(Which::ABitCombos)]).prop_flat_map(|(circ, which)| {
        let n = circ.n();
        (crate::circ::gen_inputs(circ.input_regs.clone()), gen_sched(n, true), 0..n).prop_map(move |(inputs, sched, p_eval)| PredCase {
            predictor: true,
            which,
            base: MpcCase { sched, ..MpcCase::simple(circ.clone(), inputs, p_eval, (0..n).collect()) },
        })
    })
}

pub fn run_predictor(ctx: &Ctx, tier: Tier, _seed: u64) {
    prop_search(ctx, "predictor", tier.pick(64, 2000), gen_pred, test_pred);
}
