//! Debug helper: prints the message list of an honest run.
use crate::circ::{CircSpec, GOp};
use crate::run::{Adversary, MpcCase, run_mpc};
use crate::sim::exec::ExecCfg;

pub fn and_circ(n: usize) -> CircSpec {
    // out0 = (x0 & x1) ^ x_{n-1}, out1 = !(x0 & x1)
    let mut insts = vec![];
    for p in 0..n {
        insts.push((p as u32, GOp::Input { party: p as u32, input: 0 }));
    }
    let r = n as u32;
    insts.push((r, GOp::And(0, 1)));
    insts.push((r + 1, GOp::Xor(r, (n - 1) as u32)));
    insts.push((r + 2, GOp::Not(r)));
    CircSpec { input_regs: vec![1; n], insts, max_reg_count: n + 3, output_regs: vec![r + 1, r + 2], and_ops: 1 }
}

pub fn run(n: usize) -> i32 {
    let case = MpcCase::simple(and_circ(n), vec![vec![true]; n], 0, (0..n).collect());
    let t = std::time::Instant::now();
    let run = run_mpc(&case, Adversary::default(), &ExecCfg::default());
    println!("elapsed {:?} steps {} alloc_peak {}", t.elapsed(), run.res.steps, run.res.alloc_peak);
    for m in &run.res.msgs {
        println!("#{:3} {}->{} link#{:2} occ{} sender#{:3} {:24} {} bytes", m.id, m.from, m.to, m.link_idx, m.label_occ, m.sender_idx, m.label, m.wire.len());
    }
    for (p, o) in run.res.outcomes.iter().enumerate() {
        println!("party {p}: {o:?}");
    }
    println!("probes: {:?}", run.res.probes.iter().map(|p| (p.site, p.party)).collect::<Vec<_>>());
    println!("codec: {:?}", crate::trace::check_codec(&run.res.msgs));
    0
}

pub fn tap_debug() -> i32 {
    use crate::adv::{AttackCase, TapAction, TapSpec, run_attack};
    let base = MpcCase::simple(crate::checks::c03::circ(2, 1), vec![vec![true, true], vec![true, false]], 1, vec![0, 1]);
    for idxs in [vec![16, 17, 18, 19], vec![20, 21, 22, 23], vec![28, 29, 30, 31], vec![24, 25, 26, 27]] {
        let taps = idxs.iter().map(|i| TapSpec { site: "garble_row".into(), idx: Some(*i), action: TapAction::Flip }).collect();
        let a = AttackCase { taps, ..AttackCase::honest(base.clone(), 0) };
        let run = run_attack(&a, &ExecCfg::default());
        println!("{idxs:?} -> {:?} expected {:?}", run.res.outcomes, base.expected());
    }
    println!("{:?}", base.circ.insts);
    0
}

pub fn wide_stats() -> i32 {
    use proptest::strategy::{Strategy, ValueTree};
    use proptest::test_runner::TestRunner;
    let mut r = TestRunner::deterministic();
    let s = crate::circ::gen_circuit(crate::circ::CircParams::wide(2, 4));
    let mut v = vec![];
    for _ in 0..200 {
        let c = s.new_tree(&mut r).unwrap().current();
        let u: std::collections::BTreeSet<_> = c.output_regs.iter().collect();
        v.push((u.len(), c.output_regs.len(), c.num_inputs(), c.insts.len(), c.max_reg_count));
    }
    v.sort();
    println!("unique>64: {} of 200; median {:?}; max {:?}", v.iter().filter(|x| x.0 > 64).count(), v[100], v[199]);
    0
}
