//! C19 - spilling to temp files is observationally identical to staying in memory.
use proptest::prelude::*;
use serde::{Deserialize, Serialize, de::DeserializeOwned};
use serde_json::json;

use polytune::verif::VBuf;

use crate::circ::CircParams;
use crate::fw::{CaseInfo, Ctx, Fail, Tier, hash_of, prop_search};
use crate::gens::{CaseParams, gen_case};
use crate::run::{Adversary, MpcCase, check_honest_result, run_mpc};
use crate::sim::exec::ExecCfg;
use crate::trace::shape;

#[derive(Clone, Debug, Serialize, Deserialize, PartialEq)]
pub enum Op {
    Append(usize),
    IterAll,
    IterTake(usize),
    ChunksAll,
    ChunksTake(usize),
}

#[derive(Clone, Debug, Serialize, Deserialize)]
pub struct Case {
    pub chunk: usize,
    pub ops: Vec<Op>,
    /// element type: 0 = u64, 1 = authenticated share, 2 = garbled gate, 3 = pair of shares
    pub elem: u8,
}

type ShareT = (bool, Vec<(u128, u128)>);

trait Elem: Serialize + DeserializeOwned + Clone + PartialEq + std::fmt::Debug {
    fn make(i: u64) -> Self;
}
impl Elem for u64 {
    fn make(i: u64) -> Self {
        i.wrapping_mul(0x9E3779B97F4A7C15) ^ i
    }
}
impl Elem for ShareT {
    fn make(i: u64) -> Self {
        (i % 2 == 0, (0..(i % 4)).map(|k| ((i as u128) << 64 | k as u128, !(i as u128) ^ k as u128)).collect())
    }
}
impl Elem for [Vec<u8>; 4] {
    fn make(i: u64) -> Self {
        std::array::from_fn(|r| (0..(i % 5 + r as u64)).map(|b| (b + i) as u8).collect())
    }
}
impl Elem for (ShareT, ShareT) {
    fn make(i: u64) -> Self {
        (ShareT::make(i), ShareT::make(i + 1))
    }
}

fn run_ops<T: Elem>(c: &Case) -> Result<(usize, bool), Fail> {
    let dir = tempfile::Builder::new().prefix("pvf-c19-").tempdir().map_err(|e| Fail::new("INFRA", e.to_string()))?;
    let mut file: VBuf<T> = VBuf::new(Some(dir.path()), 0).map_err(|e| Fail::new("C19|io", e.to_string()))?;
    let mut mem: VBuf<T> = VBuf::new(None, 0).map_err(|e| Fail::new("C19|io", e.to_string()))?;
    if !file.is_file() || mem.is_file() {
        return Err(Fail::new("C19|variant", "tmp_dir choice does not select the variant"));
    }
    let mut items: Vec<T> = vec![];
    let mut appended: Vec<Vec<T>> = vec![];
    let mut next = 0u64;
    let mut append_after_read = false;
    let mut read_seen = false;
    let listing = |when: &str| -> Result<(), Fail> {
        let k = std::fs::read_dir(dir.path()).map(|r| r.count()).unwrap_or(0);
        if k != 0 {
            return Err(Fail::new("C19|file-visible", format!("{k} directory entries {when}")));
        }
        Ok(())
    };
    for (step, op) in c.ops.iter().enumerate() {
        match op {
            Op::Append(len) => {
                let chunk: Vec<T> = (0..*len).map(|_| {
                    next += 1;
                    T::make(next)
                }).collect();
                file.write_chunk(&chunk).map_err(|e| Fail::new("C19|write", e))?;
                mem.write_chunk(&chunk).map_err(|e| Fail::new("C19|write", e))?;
                items.extend(chunk.iter().cloned());
                appended.push(chunk);
                if read_seen {
                    append_after_read = true;
                }
            }
            Op::IterAll | Op::IterTake(_) => {
                read_seen = true;
                let k = match op {
                    Op::IterTake(k) => *k,
                    _ => usize::MAX,
                };
                let want: Vec<T> = items.iter().take(k).cloned().collect();
                let f = file.iter_take(k).map_err(|e| Fail::new("C19|iter-error", format!("step {step}: file variant: {e}")))?;
                let m = mem.iter_take(k).map_err(|e| Fail::new("C19|iter-error", format!("step {step}: memory variant: {e}")))?;
                if f != want {
                    return Err(Fail::new("C19|items-file", format!("step {step} {op:?}: file variant yields {} items, model {} (first difference at {:?})", f.len(), want.len(), f.iter().zip(want.iter()).position(|(a, b)| a != b))));
                }
                if m != want {
                    return Err(Fail::new("C19|items-mem", format!("step {step} {op:?}: memory variant yields {} items, model {}", m.len(), want.len())));
                }
            }
            Op::ChunksAll | Op::ChunksTake(_) => {
                read_seen = true;
                let k = match op {
                    Op::ChunksTake(k) => *k,
                    _ => usize::MAX,
                };
                let f = file.chunks_take(c.chunk, k).map_err(|e| Fail::new("C19|chunks-error", format!("step {step}: file variant: {e}")))?;
                let m = mem.chunks_take(c.chunk, k).map_err(|e| Fail::new("C19|chunks-error", format!("step {step}: memory variant: {e}")))?;
                // items in order must agree whatever the boundaries (when all chunks are taken)
                if k == usize::MAX {
                    let ff: Vec<T> = f.iter().flatten().cloned().collect();
                    let mm: Vec<T> = m.iter().flatten().cloned().collect();
                    if ff != items {
                        return Err(Fail::new("C19|chunks-items-file", format!("step {step}: file chunks concatenate to {} items, model {}", ff.len(), items.len())));
                    }
                    if mm != items {
                        return Err(Fail::new("C19|chunks-items-mem", format!("step {step}: memory chunks concatenate to {} items, model {}", mm.len(), items.len())));
                    }
                }
                let regular = appended.iter().rev().skip(1).all(|a| a.len() == c.chunk) && appended.last().map(|l| l.len() <= c.chunk).unwrap_or(true);
                if regular {
                    let want: Vec<Vec<T>> = appended.iter().take(k).cloned().collect();
                    if f != want {
                        return Err(Fail::new("C19|boundaries-file", format!("step {step}: file chunk sizes {:?}, appended {:?}", f.iter().map(|x| x.len()).collect::<Vec<_>>(), want.iter().map(|x| x.len()).collect::<Vec<_>>())));
                    }
                    if m != want {
                        return Err(Fail::new("C19|boundaries-mem", format!("step {step}: memory chunk sizes {:?}, appended {:?}", m.iter().map(|x| x.len()).collect::<Vec<_>>(), want.iter().map(|x| x.len()).collect::<Vec<_>>())));
                    }
                }
            }
        }
        listing(&format!("after step {step}"))?;
    }
    drop(file);
    drop(mem);
    listing("after drop")?;
    Ok((items.len(), append_after_read))
}

pub fn test_case(c: &Case) -> Result<CaseInfo, Fail> {
    let (n_items, aar) = match c.elem % 4 {
        0 => run_ops::<u64>(c)?,
        1 => run_ops::<ShareT>(c)?,
        2 => run_ops::<[Vec<u8>; 4]>(c)?,
        _ => run_ops::<(ShareT, ShareT)>(c)?,
    };
    Ok(CaseInfo {
        nontrivial: aar.then(|| hash_of(&serde_json::to_string(c).unwrap())),
        classes: vec![format!("buf:elem={}", c.elem % 4), if aar { "buf:append_after_read".into() } else { "buf:no_append_after_read".into() }],
        sample: Some(json!({"chunk": c.chunk, "ops": c.ops, "elem": c.elem % 4, "items": n_items})),
        ..Default::default()
    })
}

fn gen_ops() -> impl Strategy<Value = Case> {
    (1usize..=8, any::<u8>()).prop_flat_map(|(chunk, elem)| {
        let op = prop_oneof![
            4 => (1..=3 * chunk).prop_map(Op::Append),
            2 => Just(Op::Append(chunk)),
            1 => Just(Op::IterAll),
            1 => (0usize..12).prop_map(Op::IterTake),
            1 => Just(Op::ChunksAll),
            1 => (0usize..4).prop_map(Op::ChunksTake),
        ];
        (proptest::collection::vec(op, 1..=12), any::<bool>()).prop_map(move |(mut ops, regular)| {
            if regular {
                // all appends but the last have exactly the chunk size
                let last = ops.iter().rposition(|o| matches!(o, Op::Append(_)));
                for (i, o) in ops.iter_mut().enumerate() {
                    if let Op::Append(l) = o {
                        if Some(i) != last {
                            *l = chunk
                        } else {
                            *l = (*l).min(chunk)
                        }
                    }
                }
            }
            Case { chunk, ops, elem }
        })
    })
}

/// mpc results and traffic under every per-party tmp_dir assignment
pub fn test_mpc(base: &MpcCase) -> Result<CaseInfo, Fail> {
    let n = base.n();
    let cfg = ExecCfg { record_probes: false, ..Default::default() };
    let mut shapes = vec![];
    for mask in 0..(1usize << n) {
        let c = MpcCase { tmp: (0..n).map(|p| mask >> p & 1 == 1).collect(), ..base.clone() };
        let run = run_mpc(&c, Adversary::default(), &cfg);
        check_honest_result(&c, &run.res).map_err(|e| Fail::new("C19|mpc-result", format!("tmp assignment {:?}: {e}", c.tmp)))?;
        if run.tmp_left.iter().any(|l| *l != 0) {
            return Err(Fail::new("C19|mpc-file-left", format!("tmp assignment {:?}: files left {:?}", c.tmp, run.tmp_left)));
        }
        shapes.push(shape(&run.res.msgs));
    }
    if shapes.windows(2).any(|w| w[0] != w[1]) {
        return Err(Fail::new("C19|mpc-traffic", "traffic shape depends on the tmp_dir assignment"));
    }
    // runs that end in an error (a peer vanishes early / half way / near the end, or the arguments
    // are rejected) must leave the directories of the remaining parties empty as well
    let all_tmp = MpcCase { tmp: vec![true; n], ..base.clone() };
    let gone = n - 1;
    let sent = shapes[0].iter().filter(|(k, _)| k.0 == gone).map(|(_, v)| v.len()).sum::<usize>();
    let mut aborted = 0u64;
    for k in [1usize, sent / 2, sent.saturating_sub(2)] {
        let run = run_mpc(&all_tmp, Adversary { crash_after: Some((gone, k)), ..Default::default() }, &cfg);
        aborted += 1;
        for p in (0..n).filter(|p| *p != gone) {
            if run.tmp_left[p] != 0 {
                return Err(Fail::new("C19|mpc-file-left|aborted-run", format!("party {p} ended with {} after party {gone} vanished before its message #{k}: {} entries left in its tmp_dir", run.res.outcomes[p].class(), run.tmp_left[p])));
            }
        }
    }
    {
        let mut ov: Vec<Option<crate::run::PartyArgs>> = vec![None; n];
        ov[0] = Some(crate::run::PartyArgs { inputs: vec![true; base.inputs[0].len() + 1], p_eval: base.p_eval, p_own: 0, p_out: base.p_out.clone() });
        let run = crate::run::run_mpc_ext(&all_tmp, Adversary::default(), &cfg, Some(ov));
        aborted += 1;
        if let Some(p) = (0..n).find(|p| run.tmp_left[*p] != 0) {
            return Err(Fail::new("C19|mpc-file-left|rejected-run", format!("party {p} ended with {} (party 0 was called with a wrong number of input bits): {} entries left in its tmp_dir", run.res.outcomes[p].class(), run.tmp_left[p])));
        }
    }
    Ok(CaseInfo {
        nontrivial: (base.circ.and_ops > 0).then(|| hash_of(&serde_json::to_string(base).unwrap())),
        classes: vec![format!("mpc:n={n}"), if base.circ.and_ops > 1000 { "mpc:multi_batch".into() } else { "mpc:single_batch".into() }],
        sample: Some(json!({"mpc": {"n": n, "ands": base.circ.and_ops, "assignments": 1 << n}})),
        extra_runs: (1u64 << n) - 1 + aborted,
        ..Default::default()
    })
}

pub fn run(tier: Tier, seed: u64) -> i32 {
    let ctx = Ctx::new("C19", tier, seed, "exploration");
    ctx.set_rule("proptest (model-based): operation sequences of length <= 12 over {append(1..3c), append(c), iter-all, iter-take(k)+drop, chunks(c)-all, chunks-take(k)+drop}, chunk size c in 1..8, element types u64 / authenticated share / pair of shares / garbled gate, applied to the file variant, the memory variant and a Vec model with chunk list: items and order equal in both variants after every step, chunk boundaries equal to the appended chunks whenever all appends but the last have size c, temp directory listing empty after every step and after drop; plus mpc runs (n<=3, incl. >1000 ANDs and >9000 random shares where the two batch sizes of the engine differ) under every per-party tmp_dir assignment: result, traffic shape, empty directories; and, with every party spilling, runs that end in an error (a peer vanishes after 1 / half / all but two of its messages; wrong number of input bits at one party): empty directories at the remaining parties. non-trivial = sequence with an append after a (partial) read / mpc case with AND gates");
    prop_search(&ctx, "ops", tier.pick(4000, 400_000), gen_ops, test_case);
    if !ctx.stopped() {
        let cp = CaseParams { circ: CircParams { n_min: 2, n_max: 3, max_gates: 20, bulk: vec![1001, 2001], bulk_prob: 40, ..Default::default() }, all_scheds: false, caps: vec![0], tmp: false };
        // the batch sizes of random shares and AND shares differ once inputs + ANDs exceed 9000
        let cp9 = CaseParams { circ: CircParams { n_min: 2, n_max: 2, max_gates: 6, max_inputs_per_party: 30, bulk: vec![8990, 9001, 9007, 9500], bulk_prob: 255, ..Default::default() }, all_scheds: false, caps: vec![0], tmp: false };
        prop_search(&ctx, "mpc9000", tier.pick(3, 24), || gen_case(cp9.clone()), test_mpc);
        prop_search(&ctx, "mpc", tier.pick(24, 600), || gen_case(cp.clone()), test_mpc);
    }
    ctx.finish()
}

pub fn replay(path: &str) -> i32 {
    let text = std::fs::read_to_string(path).unwrap_or_default();
    if text.contains("\"ops\"") {
        crate::fw::replay_case::<Case, _>("C19", path, 1, test_case)
    } else {
        crate::fw::replay_case::<MpcCase, _>("C19", path, 2, test_mpc)
    }
}
