//! Reference implementations (independent of polytune): bit-matrix transpose by definition,
//! schoolbook carry-less multiplication, textbook AES-128, CTR keystream.

/// Bit (r, c) of a rows x cols bit matrix stored row-major, LSB-first inside a byte.
pub fn get_bit(m: &[u8], cols: usize, r: usize, c: usize) -> bool {
    let i = r * cols + c;
    m[i / 8] >> (i % 8) & 1 == 1
}

pub fn transpose_ref(m: &[u8], rows: usize, cols: usize) -> Vec<u8> {
    let mut out = vec![0u8; m.len()];
    for r in 0..rows {
        for c in 0..cols {
            if get_bit(m, cols, r, c) {
                let i = c * rows + r;
                out[i / 8] |= 1 << (i % 8);
            }
        }
    }
    out
}

/// Schoolbook 128x128 -> 256 bit carry-less product, (low, high).
pub fn clmul_ref(a: u128, b: u128) -> (u128, u128) {
    let mut lo = 0u128;
    let mut hi = 0u128;
    for i in 0..128 {
        if b >> i & 1 == 1 {
            lo ^= a << i;
            if i > 0 {
                hi ^= a >> (128 - i);
            }
        }
    }
    (lo, hi)
}

fn xtime(x: u8) -> u8 {
    (x << 1) ^ if x & 0x80 != 0 { 0x1b } else { 0 }
}

fn gmul(mut a: u8, mut b: u8) -> u8 {
    let mut p = 0;
    while b != 0 {
        if b & 1 != 0 {
            p ^= a;
        }
        a = xtime(a);
        b >>= 1;
    }
    p
}

fn sbox_table() -> [u8; 256] {
    // multiplicative inverse in GF(2^8) followed by the affine map
    let mut t = [0u8; 256];
    for x in 0..256usize {
        let inv = if x == 0 { 0 } else { (1..=255u8).find(|y| gmul(x as u8, *y) == 1).unwrap() };
        let mut s = inv;
        let mut r = inv;
        for _ in 0..4 {
            r = r.rotate_left(1);
            s ^= r;
        }
        t[x] = s ^ 0x63;
    }
    t
}

pub struct Aes128Ref {
    rk: [[u8; 16]; 11],
    sbox: [u8; 256],
}

impl Aes128Ref {
    pub fn new(key: [u8; 16]) -> Self {
        let sbox = sbox_table();
        let mut w = [[0u8; 4]; 44];
        for i in 0..4 {
            w[i] = [key[4 * i], key[4 * i + 1], key[4 * i + 2], key[4 * i + 3]];
        }
        let mut rcon = 1u8;
        for i in 4..44 {
            let mut t = w[i - 1];
            if i % 4 == 0 {
                t = [sbox[t[1] as usize] ^ rcon, sbox[t[2] as usize], sbox[t[3] as usize], sbox[t[0] as usize]];
                rcon = xtime(rcon);
            }
            for j in 0..4 {
                w[i][j] = w[i - 4][j] ^ t[j];
            }
        }
        let mut rk = [[0u8; 16]; 11];
        for r in 0..11 {
            for c in 0..4 {
                for j in 0..4 {
                    rk[r][4 * c + j] = w[4 * r + c][j];
                }
            }
        }
        Aes128Ref { rk, sbox }
    }

    pub fn encrypt(&self, block: [u8; 16]) -> [u8; 16] {
        let mut s = block;
        let add = |s: &mut [u8; 16], k: &[u8; 16]| {
            for i in 0..16 {
                s[i] ^= k[i]
            }
        };
        add(&mut s, &self.rk[0]);
        for round in 1..=10 {
            for b in s.iter_mut() {
                *b = self.sbox[*b as usize];
            }
            // shift rows (state is column-major: s[4*c + r])
            let t = s;
            for c in 0..4 {
                for r in 0..4 {
                    s[4 * c + r] = t[4 * ((c + r) % 4) + r];
                }
            }
            if round != 10 {
                for c in 0..4 {
                    let col = [s[4 * c], s[4 * c + 1], s[4 * c + 2], s[4 * c + 3]];
                    s[4 * c] = gmul(col[0], 2) ^ gmul(col[1], 3) ^ col[2] ^ col[3];
                    s[4 * c + 1] = col[0] ^ gmul(col[1], 2) ^ gmul(col[2], 3) ^ col[3];
                    s[4 * c + 2] = col[0] ^ col[1] ^ gmul(col[2], 2) ^ gmul(col[3], 3);
                    s[4 * c + 3] = gmul(col[0], 3) ^ col[1] ^ col[2] ^ gmul(col[3], 2);
                }
            }
            add(&mut s, &self.rk[round]);
        }
        s
    }
}

/// FIPS-197 appendix C.1 vector and cross-check against the `aes` crate.
pub fn self_test() -> Result<(), String> {
    use aes::cipher::{BlockCipherEncrypt, KeyInit};
    let key: [u8; 16] = std::array::from_fn(|i| i as u8);
    let pt: [u8; 16] = std::array::from_fn(|i| (i as u8) * 0x11);
    let ct = Aes128Ref::new(key).encrypt(pt);
    let want = [0x69, 0xc4, 0xe0, 0xd8, 0x6a, 0x7b, 0x04, 0x30, 0xd8, 0xcd, 0xb7, 0x80, 0x70, 0xb4, 0xc5, 0x5a];
    if ct != want {
        return Err(format!("textbook AES fails FIPS-197 C.1: {ct:02x?}"));
    }
    for s in 0..16u8 {
        let key: [u8; 16] = std::array::from_fn(|i| (i as u8).wrapping_mul(37).wrapping_add(s));
        let pt: [u8; 16] = std::array::from_fn(|i| (i as u8).wrapping_mul(101) ^ s);
        let a = aes::Aes128::new(&key.into());
        let mut b = aes::Block::from(pt);
        a.encrypt_block(&mut b);
        if <[u8; 16]>::from(b) != Aes128Ref::new(key).encrypt(pt) {
            return Err("textbook AES disagrees with the aes crate".into());
        }
    }
    Ok(())
}

pub fn xor16(a: [u8; 16], b: [u8; 16]) -> [u8; 16] {
    std::array::from_fn(|i| a[i] ^ b[i])
}

/// AES-128 counter-mode keystream under `seed`: block i = AES_seed(LE128(i)), i from 0.
pub fn ctr_keystream(seed: [u8; 16], len: usize) -> Vec<u8> {
    let a = Aes128Ref::new(seed);
    let mut out = Vec::with_capacity(len + 16);
    let mut i = 0u128;
    while out.len() < len {
        out.extend(a.encrypt(i.to_le_bytes()));
        i += 1;
    }
    out.truncate(len);
    out
}
