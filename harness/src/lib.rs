pub mod alloc;
pub mod checks;
pub mod circ;
pub mod fw;
pub mod gens;
pub mod run;
pub mod sim;
