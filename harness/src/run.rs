//! Running `polytune::mpc` (and variants) for all parties of a simulated world.
use std::path::PathBuf;

use serde::{Deserialize, Serialize};

use crate::circ::CircSpec;
use crate::sim::exec::{ExecCfg, Outcome, RunResult, Task, World, run_world};
use crate::sim::net::Proxy;
use crate::sim::sched::SchedSpec;

#[derive(Clone, Debug, PartialEq, Serialize, Deserialize)]
pub struct MpcCase {
    pub circ: CircSpec,
    pub inputs: Vec<Vec<bool>>,
    pub p_eval: usize,
    pub p_out: Vec<usize>,
    /// per party: spill to a temp dir?
    pub tmp: Vec<bool>,
    /// link capacity, 0 = unbounded
    pub cap: usize,
    pub sched: SchedSpec,
}

impl MpcCase {
    pub fn n(&self) -> usize {
        self.circ.n()
    }
    pub fn expected(&self) -> Vec<bool> {
        self.circ.eval(&self.inputs)
    }
    pub fn simple(circ: CircSpec, inputs: Vec<Vec<bool>>, p_eval: usize, p_out: Vec<usize>) -> Self {
        let n = circ.n();
        MpcCase { circ, inputs, p_eval, p_out, tmp: vec![false; n], cap: 0, sched: SchedSpec::Eager }
    }
}

#[derive(Default)]
pub struct Adversary {
    pub proxy: Option<Proxy>,
    pub hold: Option<crate::sim::net::HoldPred>,
    pub late: Option<crate::sim::net::LateProxy>,
    pub crash_after: Option<(usize, usize)>,
    pub keep_open: bool,
    /// arms taps; runs on the world thread after hook reset
    pub arm: Option<Box<dyn FnOnce()>>,
}

pub struct MpcRun {
    pub res: RunResult<Vec<bool>>,
    /// files left in the temp dirs after the run (per party)
    pub tmp_left: Vec<usize>,
    /// max number of files seen in a party's tmp dir at the end of the run while buffers were possibly alive is not observable; we report end state
    pub tmp_dirs_used: usize,
}

pub fn run_mpc(case: &MpcCase, adv: Adversary, cfg: &ExecCfg) -> MpcRun {
    run_mpc_ext(case, adv, cfg, None)
}

/// `override_args`: per party optional (p_eval, p_own, p_out, inputs) replacing the honest arguments (C18).
pub fn run_mpc_ext(case: &MpcCase, adv: Adversary, cfg: &ExecCfg, override_args: Option<Vec<Option<PartyArgs>>>) -> MpcRun {
    run_mpc_full(case, adv, cfg, override_args, None)
}

/// `circuits`: the circuit object each party passes to `mpc` (kept alive by the caller, e.g. to
/// run it again after changing it in place); default = a fresh clone of `case.circ` per party.
pub fn run_mpc_full(case: &MpcCase, adv: Adversary, cfg: &ExecCfg, override_args: Option<Vec<Option<PartyArgs>>>, circuits: Option<Vec<std::sync::Arc<garble_lang::register_circuit::Circuit>>>) -> MpcRun {
    let n = case.n();
    let cap = if case.cap == 0 { usize::MAX } else { case.cap };
    let world = World::new(n, cap);
    {
        let mut net = world.net.lock().unwrap();
        net.proxy = adv.proxy;
        net.hold = adv.hold;
        net.late = adv.late;
        net.crash_after = adv.crash_after;
        net.keep_open = adv.keep_open;
        net.slow_sends = cfg.slow_sends;
    }
    let circuit = case.circ.to_circuit();
    let mut dirs: Vec<Option<tempfile::TempDir>> = vec![];
    for p in 0..n {
        if case.tmp.get(p).copied().unwrap_or(false) {
            dirs.push(Some(tempfile::Builder::new().prefix("pvf-").tempdir().expect("tempdir")));
        } else {
            dirs.push(None);
        }
    }
    let mut tasks: Vec<Option<Task<Vec<bool>>>> = vec![];
    for p in 0..n {
        let ch = world.channel(p);
        let circuit = match &circuits {
            Some(cs) => cs[p].clone(),
            None => std::sync::Arc::new(circuit.clone()),
        };
        let mut args = PartyArgs { inputs: case.inputs[p].clone(), p_eval: case.p_eval, p_own: p, p_out: case.p_out.clone() };
        if let Some(o) = &override_args {
            if let Some(Some(a)) = o.get(p) {
                args = a.clone();
            }
        }
        let dir: Option<PathBuf> = dirs[p].as_ref().map(|d| d.path().to_path_buf());
        tasks.push(Some(Box::pin(async move {
            polytune::mpc(&ch, &circuit, &args.inputs, args.p_eval, args.p_own, &args.p_out, dir.as_deref())
                .await
                .map_err(|e| format!("{e:?}"))
        })));
    }
    let mut sched = case.sched.build();
    let arm = adv.arm.unwrap_or_else(|| Box::new(|| {}));
    let res = run_world(&world, tasks, sched.as_mut(), cfg, arm);
    let tmp_left = dirs
        .iter()
        .map(|d| d.as_ref().map(|d| std::fs::read_dir(d.path()).map(|r| r.count()).unwrap_or(0)).unwrap_or(0))
        .collect();
    let used = dirs.iter().filter(|d| d.is_some()).count();
    MpcRun { res, tmp_left, tmp_dirs_used: used }
}

#[derive(Clone, Debug, PartialEq, Serialize, Deserialize)]
pub struct PartyArgs {
    pub inputs: Vec<bool>,
    pub p_eval: usize,
    pub p_own: usize,
    pub p_out: Vec<usize>,
}

/// Honest-run oracle of C01: returns a description of the first discrepancy.
pub fn check_honest_result(case: &MpcCase, res: &RunResult<Vec<bool>>) -> Result<(), String> {
    let exp = case.expected();
    for p in 0..case.n() {
        let want: Vec<bool> = if case.p_out.contains(&p) { exp.clone() } else { vec![] };
        match &res.outcomes[p] {
            Outcome::Ok(v) if *v == want => {}
            o => return Err(format!("party {p}: expected Ok({want:?}), got {}", short(o))),
        }
    }
    if let Some(m) = &res.m1 {
        return Err(format!("monitor m1: {m}"));
    }
    if res.leftover.iter().any(|l| *l != 0) {
        return Err(format!("messages left in inboxes: {:?}", res.leftover));
    }
    Ok(())
}

pub fn short<T: std::fmt::Debug>(o: &Outcome<T>) -> String {
    let s = format!("{o:?}");
    if s.len() > 300 { format!("{}…", &s[..300]) } else { s }
}

/// World with the trusted dealer as endpoint n.
pub fn run_mpc_dealer(case: &MpcCase, cfg: &ExecCfg) -> RunResult<Vec<bool>> {
    let n = case.n();
    let cap = if case.cap == 0 { usize::MAX } else { case.cap };
    let world = World::new(n + 1, cap);
    let circuit = case.circ.to_circuit();
    let mut tasks: Vec<Option<Task<Vec<bool>>>> = vec![];
    for p in 0..n {
        let ch = world.channel(p);
        let circuit = circuit.clone();
        let inputs = case.inputs[p].clone();
        let p_eval = case.p_eval;
        let p_out = case.p_out.clone();
        tasks.push(Some(Box::pin(async move {
            polytune::verif::mpc_with_dealer(&ch, &circuit, &inputs, n, p_eval, p, &p_out).await.map_err(|e| format!("{e:?}"))
        })));
    }
    let ch = world.channel(n);
    tasks.push(Some(Box::pin(async move { polytune::verif::fpre(&ch, n).await.map(|_| vec![]) })));
    let mut sched = case.sched.build();
    run_world(&world, tasks, sched.as_mut(), cfg, || {})
}
