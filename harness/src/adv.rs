//! Adversary model: a corrupted party runs the honest code behind an outbound proxy that rewrites,
//! drops or duplicates its messages (per recipient), optionally with armed taps that make it lie
//! consistently, or crashes after its k-th message.  Only honest parties' outcomes are judged.
use std::collections::BTreeSet;

use polytune::verif::TapRef;
use serde::{Deserialize, Serialize};

use crate::run::{Adversary, MpcCase, MpcRun, run_mpc};
use crate::sim::exec::{ExecCfg, Outcome};
use crate::sim::net::{EvKind, Event, MsgMeta, MsgRec, ProxyAction};
use crate::wire::{MsgMut, mutate_msg};

#[derive(Clone, Debug, PartialEq, Eq, Hash, Serialize, Deserialize)]
pub enum Target {
    /// the k-th message the corrupted party sends (to anyone)
    SenderIdx(usize),
    /// messages with this label; `occ` = k-th occurrence on the link (None = every occurrence,
    /// the persistent attacker); `to` = only towards this recipient (None = all recipients)
    Label { label: String, occ: Option<usize>, to: Option<usize> },
}

impl Target {
    pub fn matches(&self, m: &MsgMeta) -> bool {
        match self {
            Target::SenderIdx(k) => m.sender_idx == *k,
            Target::Label { label, occ, to } => m.label == *label && occ.map(|o| o == m.label_occ).unwrap_or(true) && to.map(|t| t == m.to).unwrap_or(true),
        }
    }
}

#[derive(Clone, Debug, PartialEq, Eq, Hash, Serialize, Deserialize)]
pub struct Fault {
    pub target: Target,
    pub mutation: MsgMut,
}

#[derive(Clone, Debug, PartialEq, Eq, Hash, Serialize, Deserialize)]
pub enum TapAction {
    /// flip a bool / xor 1 into the first byte
    Flip,
    /// xor this pattern into the bytes (cycled)
    XorBytes(Vec<u8>),
    /// byte-level mutation of a resizable buffer (plaintext of a garbled row)
    Bytes(crate::wire::ByteMut),
    /// plaintext of a garbled row `(bool, Vec<Mac>, Label)`: keep / pad to exactly k MACs with a
    /// consistent length prefix
    RowMacs(usize),
}

#[derive(Clone, Debug, PartialEq, Eq, Hash, Serialize, Deserialize)]
pub struct TapSpec {
    pub site: String,
    /// None = every index
    pub idx: Option<usize>,
    pub action: TapAction,
}

/// Rushing: the corrupted party holds back its messages with this label until every other party
/// has sent its message of the same round, then sends the XOR of what it received instead (for
/// n = 2: the victim's own message reflected back).
#[derive(Clone, Debug, PartialEq, Eq, Hash, Serialize, Deserialize)]
pub struct RushSpec {
    pub label: String,
    /// None = every occurrence
    pub occ: Option<usize>,
}

#[derive(Clone, Debug, PartialEq, Serialize, Deserialize)]
pub struct AttackCase {
    pub base: MpcCase,
    pub corrupt: usize,
    pub faults: Vec<Fault>,
    pub taps: Vec<TapSpec>,
    /// crash the corrupted party when it tries to send message k (0-based)
    pub crash_after: Option<usize>,
    pub keep_open: bool,
    #[serde(default)]
    pub rush: Vec<RushSpec>,
}

impl AttackCase {
    pub fn honest(base: MpcCase, corrupt: usize) -> Self {
        AttackCase { base, corrupt, faults: vec![], taps: vec![], crash_after: None, keep_open: false, rush: vec![] }
    }
    pub fn honest_parties(&self) -> Vec<usize> {
        (0..self.base.n()).filter(|p| *p != self.corrupt).collect()
    }
}

fn site_static(s: &str) -> Option<&'static str> {
    const SITES: [&str; 11] = ["rng_multi_seed", "rng_pair_seed", "fashare_dm", "dvalue_share", "beaver_d", "beaver_e", "garble_row", "own_input", "ot_choice", "garble_plain", "fashare_dm_vec"];
    SITES.iter().copied().find(|x| *x == s)
}

pub fn build_adversary(case: &AttackCase) -> Adversary {
    let corrupt = case.corrupt;
    let faults = case.faults.clone();
    let proxy: Option<crate::sim::net::Proxy> = if faults.is_empty() {
        None
    } else {
        Some(Box::new(move |meta: &MsgMeta, bytes: &[u8]| {
            if meta.from != corrupt {
                return ProxyAction::Pass;
            }
            let mut cur: Option<Vec<u8>> = None;
            for f in &faults {
                if f.target.matches(meta) {
                    match &f.mutation {
                        MsgMut::Drop => return ProxyAction::Drop,
                        MsgMut::Duplicate => return ProxyAction::Duplicate,
                        m => {
                            let b = cur.as_deref().unwrap_or(bytes);
                            if let Some(nb) = mutate_msg(&meta.label, b, m) {
                                cur = Some(nb);
                            }
                        }
                    }
                }
            }
            match cur {
                Some(b) => ProxyAction::Replace(b),
                None => ProxyAction::Pass,
            }
        }))
    };
    let taps = case.taps.clone();
    let arm: Option<Box<dyn FnOnce()>> = if taps.is_empty() {
        None
    } else {
        Some(Box::new(move || {
            for t in taps {
                let Some(site) = site_static(&t.site) else { continue };
                let idx = t.idx;
                let action = t.action.clone();
                polytune::verif::arm_tap(site, corrupt, move |i, r| {
                    if idx.map(|k| k == i).unwrap_or(true) {
                        match (&action, r) {
                            (TapAction::Flip, TapRef::Bool(b)) => *b = !*b,
                            (TapAction::Flip, TapRef::U128(x)) => *x ^= 1,
                            (TapAction::Flip, TapRef::Bytes(b)) => {
                                if !b.is_empty() {
                                    b[0] ^= 1
                                }
                            }
                            (TapAction::XorBytes(p), TapRef::Bytes(b)) => {
                                if !p.is_empty() {
                                    for (i, x) in b.iter_mut().enumerate() {
                                        *x ^= p[i % p.len()]
                                    }
                                }
                            }
                            (TapAction::XorBytes(p), TapRef::U128(x)) => {
                                let mut bytes = x.to_le_bytes();
                                for (i, b) in bytes.iter_mut().enumerate() {
                                    if !p.is_empty() {
                                        *b ^= p[i % p.len()]
                                    }
                                }
                                *x = u128::from_le_bytes(bytes);
                            }
                            (TapAction::XorBytes(p), TapRef::Bool(b)) => {
                                if p.first().map(|v| v & 1 == 1).unwrap_or(false) {
                                    *b = !*b
                                }
                            }
                            (TapAction::Flip, TapRef::Vec(b)) => {
                                if !b.is_empty() {
                                    b[0] ^= 1
                                }
                            }
                            (TapAction::XorBytes(p), TapRef::Vec(b)) => {
                                if !p.is_empty() {
                                    for (i, x) in b.iter_mut().enumerate() {
                                        *x ^= p[i % p.len()]
                                    }
                                }
                            }
                            (TapAction::Bytes(m), TapRef::Vec(b)) => *b = crate::wire::apply_bytes(b, m),
                            (TapAction::RowMacs(k), TapRef::Vec(b)) => {
                                // bincode legacy: 1 byte bool, u64 LE count, 16 bytes per MAC, 16 bytes label
                                if b.len() >= 9 + 16 {
                                    let cnt = u64::from_le_bytes(b[1..9].try_into().unwrap()) as usize;
                                    if b.len() == 9 + 16 * cnt + 16 {
                                        let label = b[9 + 16 * cnt..].to_vec();
                                        let mut macs = b[9..9 + 16 * cnt].to_vec();
                                        macs.resize(16 * *k, 0);
                                        let mut nb = vec![b[0]];
                                        nb.extend_from_slice(&(*k as u64).to_le_bytes());
                                        nb.extend_from_slice(&macs);
                                        nb.extend_from_slice(&label);
                                        *b = nb;
                                    }
                                }
                            }
                            (TapAction::Bytes(_) | TapAction::RowMacs(_), _) => {}
                        }
                    }
                });
            }
        }))
    };
    let (hold, late): (Option<crate::sim::net::HoldPred>, Option<crate::sim::net::LateProxy>) = if case.rush.is_empty() {
        (None, None)
    } else {
        let r1 = case.rush.clone();
        let n = case.base.n();
        (
            Some(Box::new(move |m: &MsgMeta| m.from == corrupt && r1.iter().any(|r| r.label == m.label && r.occ.map(|o| o == m.label_occ).unwrap_or(true)))),
            Some(Box::new(move |msg: &MsgRec, all: &[MsgRec]| {
                // the honest messages of this round towards the cheater, as their senders produced them
                let honest = |j: usize| all.iter().find(|x| x.from == j && x.to == corrupt && x.label == msg.label && x.label_occ == msg.label_occ).filter(|x| !x.orig.is_empty());
                let others: Vec<usize> = (0..n).filter(|j| *j != corrupt).collect();
                if msg.from == corrupt {
                    // outbound: XOR of what the honest parties sent (n = 2: the victim's message reflected)
                    let first = honest(others[0])?;
                    if n == 2 {
                        return Some(first.orig.clone());
                    }
                    let ty = crate::wire::label_ty(&msg.label)?;
                    let mut acc = crate::wire::decode_msg(&first.orig, &ty)?;
                    for j in &others[1..] {
                        crate::wire::xor_into(&mut acc, &crate::wire::decode_msg(&honest(*j)?.orig, &ty)?);
                    }
                    Some(crate::wire::encode_msg(&acc))
                } else {
                    // inbound: the cheater's own code sees a round that XORs to zero with what it
                    // produced itself (n = 2: its own message reflected)
                    if msg.from != others[0] {
                        return None;
                    }
                    let own = all.iter().find(|x| x.from == corrupt && x.to == msg.from && x.label == msg.label && x.label_occ == msg.label_occ).filter(|x| !x.orig.is_empty())?;
                    if n == 2 {
                        return Some(own.orig.clone());
                    }
                    let ty = crate::wire::label_ty(&msg.label)?;
                    let mut acc = crate::wire::decode_msg(&own.orig, &ty)?;
                    for j in &others[1..] {
                        crate::wire::xor_into(&mut acc, &crate::wire::decode_msg(&honest(*j)?.orig, &ty)?);
                    }
                    Some(crate::wire::encode_msg(&acc))
                }
            })),
        )
    };
    Adversary { proxy, hold, late, crash_after: case.crash_after.map(|k| (corrupt, k)), keep_open: case.keep_open, arm }
}

pub fn run_attack(case: &AttackCase, cfg: &ExecCfg) -> MpcRun {
    run_mpc(&case.base, build_adversary(case), cfg)
}

/// Was some tampered message consumed (recv_done) by an honest party?
pub fn tampered_consumed(msgs: &[MsgRec], corrupt: usize) -> bool {
    msgs.iter().any(|m| m.tampered && m.from == corrupt && m.consumed)
}

pub fn tampered_any(msgs: &[MsgRec]) -> bool {
    msgs.iter().any(|m| m.tampered)
}

/// Allowed outputs {f(x_H, x')} for all substitutions x' of the corrupted party's input bits.
pub fn allowed_outputs(base: &MpcCase, corrupt: usize) -> BTreeSet<Vec<bool>> {
    let k = base.circ.input_regs[corrupt];
    let mut set = BTreeSet::new();
    for x in 0..(1u64 << k) {
        let mut inputs = base.inputs.clone();
        inputs[corrupt] = (0..k).map(|i| x >> i & 1 == 1).collect();
        set.insert(base.circ.eval(&inputs));
    }
    set
}

/// Generic soundness oracle (C02): every honest output party that returns Ok returns a value of
/// the allowed set, all honest Oks agree (one substitution explains all - since all honest
/// output parties must return the same vector), honest non-output parties return [] or Err.
pub fn soundness(case: &AttackCase, outcomes: &[Outcome<Vec<bool>>]) -> Result<(), String> {
    let allowed = allowed_outputs(&case.base, case.corrupt);
    let mut seen: Option<Vec<bool>> = None;
    for p in case.honest_parties() {
        if let Outcome::Ok(v) = &outcomes[p] {
            if case.base.p_out.contains(&p) {
                if !allowed.contains(v) {
                    return Err(format!("honest output party {p} accepted {v:?}, allowed set {:?} (honest inputs {:?})", allowed, case.base.inputs));
                }
                if let Some(s) = &seen {
                    if s != v {
                        return Err(format!("honest output parties disagree: {s:?} vs {v:?}"));
                    }
                }
                seen = Some(v.clone());
            } else if !v.is_empty() {
                return Err(format!("honest non-output party {p} returned {v:?}"));
            }
        }
    }
    Ok(())
}

/// First event index at which `victim` completed the receive of a tampered message from `corrupt`.
pub fn first_tampered_recv(events: &[Event], msgs: &[MsgRec], victim: usize, corrupt: usize) -> Option<usize> {
    events.iter().position(|e| e.party == victim && e.kind == EvKind::RecvDone && e.peer == corrupt && e.msg.map(|id| msgs[id].tampered).unwrap_or(false))
}

#[derive(Debug, Clone, PartialEq)]
pub enum Detect {
    /// victim returned Err and started nothing outside the whitelist after consuming the tampered value
    Detected,
    /// victim returned Ok
    Accepted(String),
    /// victim returned Err but only after moving on to operations outside the round
    Progressed(String),
    Panicked(String),
    /// stalled inside the round on the cheater / budget: undecided
    Undecided(String),
    /// the tampered message never reached the victim
    NotConsumed,
}

#[derive(Clone, Debug, PartialEq, Eq, Hash, Serialize, Deserialize)]
pub enum Anchor {
    /// the first tampered message the victim receives from the cheater
    Tampered,
    /// the victim's receive of the `occ`-th message labelled `label` from the cheater (taps)
    FirstRecv { label: String, occ: usize },
}

pub const OT_GROUP: [&str; 6] = ["CO_OT_s", "CO_OT_r", "CO_OT_c0c1", "ALSZ_OT_setup", "KOS_OT_x_t0_t1", "KOS_OT_corr"];

/// Must-detect oracle (C03/C04).  `whitelist`: labels the victim may still start after it has
/// received the tampered message (the rest of the same round).  With `ot_group`, operations of
/// the concurrently running pairwise OT sessions with *other* peers are allowed as well.
pub fn must_detect(run: &MpcRun, victim: usize, corrupt: usize, anchor: &Anchor, whitelist: &[String], ot_group: bool) -> Detect {
    let res = &run.res;
    let at = match anchor {
        Anchor::Tampered => first_tampered_recv(&res.events, &res.msgs, victim, corrupt),
        Anchor::FirstRecv { label, occ } => res.events.iter().position(|e| {
            e.party == victim && e.kind == EvKind::RecvDone && e.peer == corrupt && e.msg.map(|id| res.msgs[id].label == *label && res.msgs[id].label_occ == *occ).unwrap_or(false)
        }),
    };
    let Some(at) = at else {
        return match &res.outcomes[victim] {
            Outcome::Panic(m) => Detect::Panicked(m.clone()),
            _ => Detect::NotConsumed,
        };
    };
    let mut progressed: Option<String> = None;
    for e in &res.events[at + 1..] {
        if e.party == victim && matches!(e.kind, EvKind::SendStart | EvKind::RecvStart) && !whitelist.iter().any(|w| *w == e.label) {
            if ot_group && e.peer != corrupt && OT_GROUP.contains(&e.label.as_str()) {
                continue;
            }
            progressed = Some(format!("{:?} {:?} peer {}", e.kind, e.label, e.peer));
            break;
        }
    }
    match &res.outcomes[victim] {
        Outcome::Panic(m) => Detect::Panicked(m.clone()),
        Outcome::Ok(v) => Detect::Accepted(format!("Ok({v:?})")),
        Outcome::Err(e) => match progressed {
            Some(p) => Detect::Progressed(format!("started {p} before failing with {}", trunc(e, 160))),
            None => Detect::Detected,
        },
        Outcome::Stalled(on) => match progressed {
            Some(p) => Detect::Progressed(format!("started {p}, then stalled on {on:?}")),
            None => Detect::Undecided(format!("stalled on {on:?}")),
        },
        Outcome::Budget => Detect::Undecided("budget".into()),
        Outcome::Crashed => Detect::Undecided("crashed".into()),
    }
}

pub fn trunc(s: &str, n: usize) -> String {
    if s.len() > n { format!("{}…", &s[..s.char_indices().take_while(|(i, _)| *i < n).last().map(|(i, c)| i + c.len_utf8()).unwrap_or(0)]) } else { s.to_string() }
}

/// Error variant name without payload, e.g. `PreprocessingError(AShareWrongMAC)`.
pub fn err_kind(e: &str) -> String {
    // keep identifiers and parentheses, drop payloads after '{' or quoted strings
    let mut out = String::new();
    let mut depth = 0;
    for c in e.chars() {
        match c {
            '{' | '"' => break,
            '(' => {
                depth += 1;
                out.push(c)
            }
            ')' => {
                depth -= 1;
                out.push(c)
            }
            c if c.is_alphanumeric() || c == '_' => out.push(c),
            _ => {}
        }
        if out.len() > 80 {
            break;
        }
    }
    for _ in 0..depth.max(0) {
        out.push(')');
    }
    out
}

/// Normalises a panic message for signatures: drops line numbers and numeric payloads.
pub fn panic_sig(m: &str) -> String {
    let (msg, loc) = m.rsplit_once(" @ ").unwrap_or((m, ""));
    let file = loc.rsplit_once(':').map(|(f, _)| f).unwrap_or(loc);
    let file = file.rsplit('/').next().unwrap_or(file);
    let msg: String = msg.chars().map(|c| if c.is_ascii_digit() { '#' } else { c }).collect();
    let mut collapsed = String::new();
    for c in msg.chars() {
        if c == '#' && collapsed.ends_with('#') {
            continue;
        }
        collapsed.push(c);
    }
    format!("{}@{}", trunc(&collapsed, 60), file)
}
