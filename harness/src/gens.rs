//! Shared generators for mpc cases.
use proptest::prelude::*;

use crate::circ::{CircParams, CircSpec, gen_circuit, gen_inputs, subset_from_mask};
use crate::run::MpcCase;
use crate::sim::sched::SchedSpec;

pub fn gen_sched(n: usize, allow_all: bool) -> BoxedStrategy<SchedSpec> {
    if !allow_all {
        return Just(SchedSpec::Eager).boxed();
    }
    prop_oneof![
        2 => Just(SchedSpec::Eager),
        3 => any::<u64>().prop_map(SchedSpec::Random),
        2 => (any::<u64>(), 1u8..=4, 50u32..3000).prop_map(|(seed, d, horizon)| SchedSpec::Pct { seed, d, horizon }),
        2 => (0..n as u8).prop_map(SchedSpec::Starve),
        2 => any::<u64>().prop_map(SchedSpec::LazyDelivery),
        1 => Just(SchedSpec::Reverse),
        2 => proptest::collection::vec(any::<u8>(), 1..300).prop_map(SchedSpec::Choices),
    ]
    .boxed()
}

#[derive(Clone, Debug)]
pub struct CaseParams {
    pub circ: CircParams,
    pub all_scheds: bool,
    pub caps: Vec<usize>,
    pub tmp: bool,
}

pub fn gen_case_for(circ: CircSpec, cp: CaseParams) -> impl Strategy<Value = MpcCase> {
    let n = circ.n();
    let caps = cp.caps.clone();
    (
        gen_inputs(circ.input_regs.clone()),
        0..n,
        any::<u32>(),
        any::<bool>(),
        proptest::collection::vec(any::<bool>(), n),
        0..caps.len(),
        gen_sched(n, cp.all_scheds),
    )
        .prop_map(move |(inputs, p_eval, mask, eval_out_flip, tmp, capi, sched)| {
            let mut p_out = subset_from_mask(mask, n);
            // evaluator outside p_out with probability about 1/2
            if eval_out_flip && p_out.len() > 1 {
                p_out.retain(|p| *p != p_eval);
            }
            MpcCase { circ: circ.clone(), inputs, p_eval, p_out, tmp: if cp.tmp { tmp } else { vec![false; n] }, cap: caps[capi], sched }
        })
}

pub fn gen_case(cp: CaseParams) -> impl Strategy<Value = MpcCase> {
    let cp2 = cp.clone();
    gen_circuit(cp.circ.clone()).prop_flat_map(move |circ| gen_case_for(circ, cp2.clone()))
}
