//! Helpers over the recorded history of a run.
use std::collections::BTreeMap;

use crate::sim::net::MsgRec;
use crate::wire::{Val, decode_msg, encode_msg, label_ty};

/// per ordered pair (from,to): sequence of (label, wire length) in send order
pub fn shape(msgs: &[MsgRec]) -> BTreeMap<(usize, usize), Vec<(String, usize)>> {
    let mut m: BTreeMap<(usize, usize), Vec<(String, usize)>> = BTreeMap::new();
    for r in msgs {
        m.entry((r.from, r.to)).or_default().push((r.label.clone(), r.wire.len()));
    }
    m
}

/// monitor m2: every honest message has a known label and round-trips through the codec.
pub fn check_codec(msgs: &[MsgRec]) -> Result<(), String> {
    for r in msgs {
        if r.tampered {
            continue;
        }
        let ty = label_ty(&r.label).ok_or_else(|| format!("unknown label {:?} ({}->{})", r.label, r.from, r.to))?;
        let v = decode_msg(&r.wire, &ty).ok_or_else(|| format!("message {:?} ({}->{}, {} bytes) does not decode", r.label, r.from, r.to, r.wire.len()))?;
        if encode_msg(&v) != r.wire {
            return Err(format!("message {:?} does not re-encode identically", r.label));
        }
    }
    Ok(())
}

pub fn decode(r: &MsgRec) -> Option<Val> {
    decode_msg(&r.wire, &label_ty(&r.label)?)
}

/// positions of `Some` in a decoded Vec<Option<..>> message
pub fn some_positions(v: &Val) -> Vec<usize> {
    match v {
        Val::Seq(vs) => vs.iter().enumerate().filter(|(_, x)| matches!(x, Val::Opt(Some(_)))).map(|(i, _)| i).collect(),
        _ => vec![],
    }
}
