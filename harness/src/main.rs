use pvf::fw::Tier;

#[global_allocator]
static GLOBAL: pvf::alloc::Counting = pvf::alloc::Counting;

fn main() {
    let args: Vec<String> = std::env::args().collect();
    if args.len() < 2 {
        eprintln!("usage: pvf <property-id> [--tier quick|thorough] [--replay <file>]");
        std::process::exit(2);
    }
    let id = args[1].as_str();
    let mut tier = match std::env::var("VERIF_TIER").as_deref() {
        Ok("thorough") => Tier::Thorough,
        _ => Tier::Quick,
    };
    let mut replay = None;
    let mut i = 2;
    while i < args.len() {
        match args[i].as_str() {
            "--tier" => {
                tier = if args.get(i + 1).map(|s| s.as_str()) == Some("thorough") { Tier::Thorough } else { Tier::Quick };
                i += 1;
            }
            "--replay" => {
                replay = args.get(i + 1).cloned();
                i += 1;
            }
            _ => {}
        }
        i += 1;
    }
    let seed: u64 = std::env::var("VERIF_SEED").ok().and_then(|s| s.parse::<i128>().ok()).map(|v| v as u64).unwrap_or(1);
    let code = pvf::checks::dispatch(id, tier, seed, replay.as_deref());
    std::process::exit(code);
}
