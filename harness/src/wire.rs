//! Wire codec: label -> type grammar, decode / encode (bincode legacy layout), tree mutators.
use serde::{Deserialize, Serialize};

#[derive(Clone, Debug, PartialEq)]
pub enum Ty {
    Bool,
    U8,
    U32,
    U128,
    /// 16 raw bytes (Block)
    B16,
    /// 32 raw bytes (commitment)
    Arr32,
    /// Vec<u8>: u64 length + bytes
    Bytes,
    Str,
    Unit,
    Opt(Box<Ty>),
    Tup(Vec<Ty>),
    Seq(Box<Ty>),
    Arr4(Box<Ty>),
}

#[derive(Clone, Debug, PartialEq)]
pub enum Val {
    /// raw byte so that invalid encodings are representable
    Bool(u8),
    U8(u8),
    U32(u32),
    U128(u128),
    B16([u8; 16]),
    Arr32([u8; 32]),
    Bytes(Vec<u8>),
    Str(Vec<u8>),
    Unit,
    Opt(Option<Box<Val>>),
    Tup(Vec<Val>),
    Seq(Vec<Val>),
}

fn share_ty() -> Ty {
    Ty::Tup(vec![Ty::Bool, Ty::Seq(Box::new(Ty::Tup(vec![Ty::U128, Ty::U128])))])
}

/// Element type of the `Vec<T>` sent under `label` (every message is a Vec).
pub fn label_ty(label: &str) -> Option<Ty> {
    use Ty::*;
    let b = |t: Ty| Box::new(t);
    if let Some(rest) = label.strip_prefix("broadcast ") {
        // echo round of the verified broadcast: Vec<Option<u128>>
        let _ = rest;
        return Some(Opt(b(U128)));
    }
    Some(match label {
        "RNG comm" => Arr32,
        "RNG ver" => U8,
        "CO_OT_s" => U8,
        "CO_OT_r" => Bytes,
        "CO_OT_c0c1" => Tup(vec![B16, B16]),
        "ALSZ_OT_setup" => Bytes,
        "KOS_OT_x_t0_t1" => Tup(vec![B16, B16, B16]),
        "KOS_OT_corr" => B16,
        "fabitn" => Tup(vec![Bool, U128]),
        "fashare comm" => Tup(vec![Arr32, Arr32, Arr32]),
        "fashare ver" => Bytes,
        "fashare di_bi" => U128,
        "haand" => Tup(vec![Bool, Bool]),
        "flaand" => Tup(vec![Bool, U128]),
        "flaand comm" => Arr32,
        "flaand hash" => U128,
        "dvalue" => Tup(vec![Seq(b(Bool)), Seq(b(U128))]),
        "faand" => Tup(vec![Bool, Bool, U128, U128]),
        "preprocessed gates" => Arr4(b(Bytes)),
        "wire shares" | "output wire shares" | "lambda" => Opt(b(Tup(vec![Bool, U128]))),
        "masked inputs" => Opt(b(Bool)),
        "labels" => Opt(b(U128)),
        // trusted dealer
        // labels are the sender's: party -> dealer uses the plain label, dealer -> party "(fpre)"
        "delta" => Unit,
        "delta (fpre)" => U128,
        "random shares" => U32,
        "random shares (fpre)" => share_ty(),
        "AND shares" => Tup(vec![share_ty(), share_ty()]),
        "AND shares (fpre)" => share_ty(),
        "error" => Str,
        _ => return None,
    })
}

pub struct Reader<'a> {
    b: &'a [u8],
    pos: usize,
}

impl<'a> Reader<'a> {
    fn take(&mut self, n: usize) -> Option<&'a [u8]> {
        if self.pos + n > self.b.len() {
            return None;
        }
        let s = &self.b[self.pos..self.pos + n];
        self.pos += n;
        Some(s)
    }
    fn u64(&mut self) -> Option<u64> {
        Some(u64::from_le_bytes(self.take(8)?.try_into().ok()?))
    }
}

pub fn decode_val(r: &mut Reader, ty: &Ty) -> Option<Val> {
    Some(match ty {
        Ty::Bool => Val::Bool(r.take(1)?[0]),
        Ty::U8 => Val::U8(r.take(1)?[0]),
        Ty::U32 => Val::U32(u32::from_le_bytes(r.take(4)?.try_into().ok()?)),
        Ty::U128 => Val::U128(u128::from_le_bytes(r.take(16)?.try_into().ok()?)),
        Ty::B16 => Val::B16(r.take(16)?.try_into().ok()?),
        Ty::Arr32 => Val::Arr32(r.take(32)?.try_into().ok()?),
        Ty::Bytes => {
            let n = r.u64()? as usize;
            Val::Bytes(r.take(n)?.to_vec())
        }
        Ty::Str => {
            let n = r.u64()? as usize;
            Val::Str(r.take(n)?.to_vec())
        }
        Ty::Unit => Val::Unit,
        Ty::Opt(t) => match r.take(1)?[0] {
            0 => Val::Opt(None),
            1 => Val::Opt(Some(Box::new(decode_val(r, t)?))),
            _ => return None,
        },
        Ty::Tup(ts) => Val::Tup(ts.iter().map(|t| decode_val(r, t)).collect::<Option<Vec<_>>>()?),
        Ty::Seq(t) => {
            let n = r.u64()? as usize;
            if n > r.b.len() {
                return None;
            }
            let mut v = Vec::with_capacity(n);
            for _ in 0..n {
                v.push(decode_val(r, t)?);
            }
            Val::Seq(v)
        }
        Ty::Arr4(t) => Val::Tup((0..4).map(|_| decode_val(r, t)).collect::<Option<Vec<_>>>()?),
    })
}

/// Decodes a whole message (`Vec<T>`); `None` if the bytes do not parse exactly.
pub fn decode_msg(bytes: &[u8], elem: &Ty) -> Option<Val> {
    let mut r = Reader { b: bytes, pos: 0 };
    let v = decode_val(&mut r, &Ty::Seq(Box::new(elem.clone())))?;
    if r.pos != bytes.len() {
        return None;
    }
    Some(v)
}

pub fn encode_val(v: &Val, out: &mut Vec<u8>) {
    match v {
        Val::Bool(b) | Val::U8(b) => out.push(*b),
        Val::U32(x) => out.extend(x.to_le_bytes()),
        Val::U128(x) => out.extend(x.to_le_bytes()),
        Val::B16(x) => out.extend(x),
        Val::Arr32(x) => out.extend(x),
        Val::Bytes(b) | Val::Str(b) => {
            out.extend((b.len() as u64).to_le_bytes());
            out.extend(b);
        }
        Val::Unit => {}
        Val::Opt(None) => out.push(0),
        Val::Opt(Some(x)) => {
            out.push(1);
            encode_val(x, out);
        }
        Val::Tup(vs) => {
            for x in vs {
                encode_val(x, out);
            }
        }
        Val::Seq(vs) => {
            out.extend((vs.len() as u64).to_le_bytes());
            for x in vs {
                encode_val(x, out);
            }
        }
    }
}

pub fn encode_msg(v: &Val) -> Vec<u8> {
    let mut out = vec![];
    encode_val(v, &mut out);
    out
}

// ---------------------------------------------------------------------------------------------
// tree paths and mutations
// ---------------------------------------------------------------------------------------------

pub type Path = Vec<usize>;

#[derive(Clone, Debug, PartialEq, Eq, Hash, Serialize, Deserialize)]
pub enum TreeMut {
    /// flip bit `bit` of the leaf (bool: bit 0; u128/bytes: bit index modulo width)
    FlipBit(u32),
    /// set a bool / u8 leaf to a raw byte value
    SetByte(u8),
    /// replace leaf by pseudo-random content derived from the seed
    Randomise(u64),
    /// set leaf to all-zero
    Zero,
    /// set every byte of the leaf to 0xff
    Ones,
    /// Option: Some <-> None (a None becomes Some(default))
    ToggleOpt,
    /// Seq/Bytes: remove the last element
    LenMinus1,
    /// Seq/Bytes: duplicate the last element (or push a default one)
    LenPlus1,
    /// Seq/Bytes: make empty
    LenZero,
    /// Seq/Bytes: truncate to one element
    LenOne,
    /// Seq: swap first and last element
    SwapEnds,
}

pub fn get<'a>(v: &'a Val, path: &[usize]) -> Option<&'a Val> {
    if path.is_empty() {
        return Some(v);
    }
    match v {
        Val::Tup(vs) | Val::Seq(vs) => get(vs.get(path[0])?, &path[1..]),
        Val::Opt(Some(x)) if path[0] == 0 => get(x, &path[1..]),
        _ => None,
    }
}

pub fn get_mut<'a>(v: &'a mut Val, path: &[usize]) -> Option<&'a mut Val> {
    if path.is_empty() {
        return Some(v);
    }
    match v {
        Val::Tup(vs) | Val::Seq(vs) => get_mut(vs.get_mut(path[0])?, &path[1..]),
        Val::Opt(Some(x)) if path[0] == 0 => get_mut(x, &path[1..]),
        _ => None,
    }
}

fn default_of(ty: &Ty) -> Val {
    match ty {
        Ty::Bool => Val::Bool(0),
        Ty::U8 => Val::U8(0),
        Ty::U32 => Val::U32(0),
        Ty::U128 => Val::U128(0),
        Ty::B16 => Val::B16([0; 16]),
        Ty::Arr32 => Val::Arr32([0; 32]),
        Ty::Bytes => Val::Bytes(vec![]),
        Ty::Str => Val::Str(vec![]),
        Ty::Unit => Val::Unit,
        Ty::Opt(_) => Val::Opt(None),
        Ty::Tup(ts) => Val::Tup(ts.iter().map(default_of).collect()),
        Ty::Seq(_) => Val::Seq(vec![]),
        Ty::Arr4(t) => Val::Tup((0..4).map(|_| default_of(t)).collect()),
    }
}

/// type at `path` below the message type Seq(elem)
pub fn ty_at(elem: &Ty, v: &Val, path: &[usize]) -> Option<Ty> {
    fn go(ty: &Ty, v: &Val, path: &[usize]) -> Option<Ty> {
        if path.is_empty() {
            return Some(ty.clone());
        }
        match (ty, v) {
            (Ty::Seq(t), Val::Seq(vs)) => go(t, vs.get(path[0])?, &path[1..]),
            (Ty::Tup(ts), Val::Tup(vs)) => go(ts.get(path[0])?, vs.get(path[0])?, &path[1..]),
            (Ty::Arr4(t), Val::Tup(vs)) => go(t, vs.get(path[0])?, &path[1..]),
            (Ty::Opt(t), Val::Opt(Some(x))) => go(t, x, &path[1..]),
            _ => None,
        }
    }
    go(&Ty::Seq(Box::new(elem.clone())), v, path)
}

fn mix(seed: u64, i: u64) -> u8 {
    let mut z = seed.wrapping_add(i.wrapping_mul(0x9E3779B97F4A7C15));
    z = (z ^ (z >> 30)).wrapping_mul(0xBF58476D1CE4E5B9);
    z = (z ^ (z >> 27)).wrapping_mul(0x94D049BB133111EB);
    (z ^ (z >> 31)) as u8
}

/// Applies `m` at `path`; returns false if the mutation does not apply to that node.
pub fn apply(root: &mut Val, elem: &Ty, path: &[usize], m: &TreeMut) -> bool {
    let ty = match ty_at(elem, root, path) {
        Some(t) => t,
        None => return false,
    };
    let node = match get_mut(root, path) {
        Some(n) => n,
        None => return false,
    };
    match (m, node) {
        (TreeMut::FlipBit(_), Val::Bool(b)) => *b ^= 1,
        (TreeMut::FlipBit(k), Val::U8(b)) => *b ^= 1 << (k % 8),
        (TreeMut::FlipBit(k), Val::U32(x)) => *x ^= 1 << (k % 32),
        (TreeMut::FlipBit(k), Val::U128(x)) => *x ^= 1u128 << (k % 128),
        (TreeMut::FlipBit(k), Val::B16(x)) => x[(*k as usize / 8) % 16] ^= 1 << (k % 8),
        (TreeMut::FlipBit(k), Val::Arr32(x)) => x[(*k as usize / 8) % 32] ^= 1 << (k % 8),
        (TreeMut::FlipBit(k), Val::Bytes(x)) if !x.is_empty() => {
            let l = x.len();
            x[(*k as usize / 8) % l] ^= 1 << (k % 8)
        }
        (TreeMut::SetByte(v), Val::Bool(b)) | (TreeMut::SetByte(v), Val::U8(b)) => {
            if *b == *v {
                return false;
            }
            *b = *v
        }
        (TreeMut::SetByte(v), Val::Bytes(x)) if !x.is_empty() => {
            if x[0] == *v {
                return false;
            }
            x[0] = *v
        }
        (TreeMut::Randomise(s), Val::U128(x)) => *x = u128::from_le_bytes(std::array::from_fn(|i| mix(*s, i as u64))),
        (TreeMut::Randomise(s), Val::B16(x)) => *x = std::array::from_fn(|i| mix(*s, i as u64)),
        (TreeMut::Randomise(s), Val::Arr32(x)) => *x = std::array::from_fn(|i| mix(*s, i as u64)),
        (TreeMut::Randomise(s), Val::Bytes(x)) if !x.is_empty() => {
            for (i, b) in x.iter_mut().enumerate() {
                *b = mix(*s, i as u64)
            }
        }
        (TreeMut::Zero, Val::U128(x)) => {
            if *x == 0 {
                return false;
            }
            *x = 0
        }
        (TreeMut::Zero, Val::Bool(b)) => *b = 0,
        (TreeMut::Zero, Val::U8(b)) => *b = 0,
        (TreeMut::Zero, Val::U32(b)) => *b = 0,
        (TreeMut::Ones, Val::Bool(b)) => *b = 1,
        (TreeMut::Ones, Val::U32(b)) => *b = u32::MAX,
        (TreeMut::Zero, Val::B16(x)) => *x = [0; 16],
        (TreeMut::Zero, Val::Arr32(x)) => *x = [0; 32],
        (TreeMut::Zero, Val::Bytes(x)) if !x.is_empty() => x.iter_mut().for_each(|b| *b = 0),
        (TreeMut::Ones, Val::U8(b)) => {
            if *b == 0xff {
                return false;
            }
            *b = 0xff
        }
        (TreeMut::Ones, Val::U128(x)) => *x = u128::MAX,
        (TreeMut::Ones, Val::B16(x)) => *x = [0xff; 16],
        (TreeMut::Ones, Val::Arr32(x)) => *x = [0xff; 32],
        (TreeMut::Ones, Val::Bytes(x)) if !x.is_empty() => x.iter_mut().for_each(|b| *b = 0xff),
        (TreeMut::ToggleOpt, n @ Val::Opt(_)) => {
            let inner = match &ty {
                Ty::Opt(t) => (**t).clone(),
                _ => return false,
            };
            *n = match n {
                Val::Opt(Some(_)) => Val::Opt(None),
                _ => Val::Opt(Some(Box::new(default_of(&inner)))),
            };
        }
        (TreeMut::LenMinus1, Val::Seq(vs)) if !vs.is_empty() => {
            vs.pop();
        }
        (TreeMut::LenMinus1, Val::Bytes(b)) if !b.is_empty() => {
            b.pop();
        }
        (TreeMut::LenPlus1, Val::Seq(vs)) => {
            let x = match vs.last() {
                Some(l) => l.clone(),
                None => match &ty {
                    Ty::Seq(t) => default_of(t),
                    _ => return false,
                },
            };
            vs.push(x);
        }
        (TreeMut::LenPlus1, Val::Bytes(b)) => b.push(0),
        (TreeMut::LenZero, Val::Seq(vs)) if !vs.is_empty() => vs.clear(),
        (TreeMut::LenZero, Val::Bytes(b)) if !b.is_empty() => b.clear(),
        (TreeMut::LenOne, Val::Seq(vs)) if vs.len() > 1 => vs.truncate(1),
        (TreeMut::LenOne, Val::Bytes(b)) if b.len() > 1 => b.truncate(1),
        (TreeMut::SwapEnds, Val::Seq(vs)) if vs.len() > 1 && vs[0] != vs[vs.len() - 1] => {
            let l = vs.len() - 1;
            vs.swap(0, l)
        }
        _ => return false,
    }
    true
}

/// Enumerates node paths of a decoded message.  For sequences longer than `cap` only the
/// first, middle and last elements are descended into (the enumeration stays bounded).
pub fn paths(v: &Val, cap: usize) -> Vec<Path> {
    fn go(v: &Val, cur: &mut Path, out: &mut Vec<Path>, cap: usize) {
        out.push(cur.clone());
        match v {
            Val::Tup(vs) => {
                for (i, x) in vs.iter().enumerate() {
                    cur.push(i);
                    go(x, cur, out, cap);
                    cur.pop();
                }
            }
            Val::Seq(vs) => {
                let idxs: Vec<usize> = if vs.len() <= cap { (0..vs.len()).collect() } else { vec![0, vs.len() / 2, vs.len() - 1] };
                for i in idxs {
                    cur.push(i);
                    go(&vs[i], cur, out, cap);
                    cur.pop();
                }
            }
            Val::Opt(Some(x)) => {
                cur.push(0);
                go(x, cur, out, cap);
                cur.pop();
            }
            _ => {}
        }
    }
    let mut out = vec![];
    go(v, &mut vec![], &mut out, cap);
    out
}

/// Mutations that make sense for the node kind.
pub fn muts_for(v: &Val) -> Vec<TreeMut> {
    match v {
        Val::Bool(_) => vec![TreeMut::FlipBit(0), TreeMut::SetByte(2)],
        Val::U8(_) => vec![TreeMut::FlipBit(0), TreeMut::FlipBit(7)],
        Val::U32(_) => vec![TreeMut::FlipBit(0), TreeMut::FlipBit(31)],
        Val::U128(_) => vec![TreeMut::FlipBit(0), TreeMut::FlipBit(127), TreeMut::Randomise(7), TreeMut::Zero],
        Val::B16(_) | Val::Arr32(_) => vec![TreeMut::FlipBit(0), TreeMut::FlipBit(77), TreeMut::Randomise(7), TreeMut::Zero],
        Val::Bytes(_) => vec![TreeMut::FlipBit(0), TreeMut::FlipBit(1001), TreeMut::Randomise(7), TreeMut::LenMinus1, TreeMut::LenPlus1, TreeMut::LenZero, TreeMut::LenOne, TreeMut::SetByte(2)],
        Val::Str(_) | Val::Unit => vec![],
        Val::Opt(_) => vec![TreeMut::ToggleOpt],
        Val::Tup(_) => vec![],
        Val::Seq(_) => vec![TreeMut::LenMinus1, TreeMut::LenPlus1, TreeMut::LenZero, TreeMut::LenOne, TreeMut::SwapEnds],
    }
}

// ---------------------------------------------------------------------------------------------
// byte-level mutations
// ---------------------------------------------------------------------------------------------

#[derive(Clone, Debug, PartialEq, Eq, Hash, Serialize, Deserialize)]
pub enum ByteMut {
    Empty,
    Truncate(u32),
    FlipBit(u32),
    RandomSameLen(u64),
    Extend(u32),
    /// overwrite the u64 at byte offset with 2^k
    LenPrefix { offset: u32, k: u8 },
    AllOnes,
    /// format-agnostic: if the message looks like `u64 n` followed by n equally sized elements,
    /// drop the last k elements and fix the prefix (k = u32::MAX: make it empty)
    VecShrink(u32),
    /// same heuristic: duplicate the last element and fix the prefix
    VecGrow,
    /// same heuristic: overwrite the 4-byte word `word` of one element (last = true: the last
    /// element, else the first) with 0xff bytes - an index or count field inside an element
    ElemWordOnes { last: bool, word: u32 },
}

/// (count, element size) if the bytes look like a bincode Vec of fixed-size elements
pub fn uniform_vec_shape(b: &[u8]) -> Option<(usize, usize)> {
    if b.len() < 8 {
        return None;
    }
    let n = u64::from_le_bytes(b[..8].try_into().ok()?) as usize;
    if n == 0 || n > b.len() || (b.len() - 8) % n != 0 {
        return None;
    }
    Some((n, (b.len() - 8) / n))
}

pub fn apply_bytes(b: &[u8], m: &ByteMut) -> Vec<u8> {
    let mut v = b.to_vec();
    match m {
        ByteMut::Empty => v.clear(),
        ByteMut::Truncate(k) => v.truncate((*k as usize).min(b.len())),
        ByteMut::FlipBit(k) => {
            if !v.is_empty() {
                let l = v.len();
                v[(*k as usize / 8) % l] ^= 1 << (k % 8);
            }
        }
        ByteMut::RandomSameLen(s) => {
            for (i, x) in v.iter_mut().enumerate() {
                *x = mix(*s, i as u64)
            }
        }
        ByteMut::Extend(k) => v.extend((0..*k).map(|i| mix(99, i as u64))),
        ByteMut::LenPrefix { offset, k } => {
            let o = *offset as usize;
            if v.len() >= o + 8 {
                v[o..o + 8].copy_from_slice(&(1u64 << (*k % 64)).to_le_bytes());
            }
        }
        ByteMut::AllOnes => v.iter_mut().for_each(|x| *x = 0xff),
        ByteMut::VecShrink(k) => {
            if let Some((n, sz)) = uniform_vec_shape(b) {
                let keep = if *k == u32::MAX { 0 } else { n.saturating_sub(*k as usize) };
                v.truncate(8 + keep * sz);
                v[..8].copy_from_slice(&(keep as u64).to_le_bytes());
            }
        }
        ByteMut::ElemWordOnes { last, word } => {
            if let Some((n, sz)) = uniform_vec_shape(b) {
                let off = 4 * *word as usize;
                if sz >= off + 4 {
                    let e = if *last { n - 1 } else { 0 };
                    let at = 8 + e * sz + off;
                    v[at..at + 4].iter_mut().for_each(|x| *x = 0xff);
                }
            }
        }
        ByteMut::VecGrow => {
            if let Some((n, sz)) = uniform_vec_shape(b) {
                if sz > 0 {
                    let last = b[b.len() - sz..].to_vec();
                    v.extend(last);
                    v[..8].copy_from_slice(&((n + 1) as u64).to_le_bytes());
                }
            }
        }
    }
    v
}

/// A mutation of one message, serialisable for replay files.
#[derive(Clone, Debug, PartialEq, Eq, Hash, Serialize, Deserialize)]
pub enum MsgMut {
    Tree { path: Vec<usize>, m: TreeMut },
    /// several tree mutations applied in order
    Multi(Vec<(Vec<usize>, TreeMut)>),
    Bytes(ByteMut),
    Drop,
    Duplicate,
}

/// Applies a message mutation to wire bytes; `None` = not applicable (bytes unchanged).
pub fn mutate_msg(label: &str, bytes: &[u8], m: &MsgMut) -> Option<Vec<u8>> {
    match m {
        MsgMut::Bytes(bm) => {
            let v = apply_bytes(bytes, bm);
            (v != bytes).then_some(v)
        }
        MsgMut::Tree { path, m } => {
            let ty = label_ty(label)?;
            let mut v = decode_msg(bytes, &ty)?;
            if !apply(&mut v, &ty, path, m) {
                return None;
            }
            let out = encode_msg(&v);
            (out != bytes).then_some(out)
        }
        MsgMut::Multi(ms) => {
            let ty = label_ty(label)?;
            let mut v = decode_msg(bytes, &ty)?;
            let mut any = false;
            for (path, m) in ms {
                any |= apply(&mut v, &ty, path, m);
            }
            if !any {
                return None;
            }
            let out = encode_msg(&v);
            (out != bytes).then_some(out)
        }
        MsgMut::Drop | MsgMut::Duplicate => None,
    }
}

/// XORs the leaves of `b` into `a` where the two trees have the same shape (lengths and options
/// of `a` are kept).
pub fn xor_into(a: &mut Val, b: &Val) {
    match (a, b) {
        (Val::Bool(x), Val::Bool(y)) => *x ^= *y,
        (Val::U8(x), Val::U8(y)) => *x ^= *y,
        (Val::U32(x), Val::U32(y)) => *x ^= *y,
        (Val::U128(x), Val::U128(y)) => *x ^= *y,
        (Val::B16(x), Val::B16(y)) => x.iter_mut().zip(y).for_each(|(p, q)| *p ^= *q),
        (Val::Arr32(x), Val::Arr32(y)) => x.iter_mut().zip(y).for_each(|(p, q)| *p ^= *q),
        (Val::Bytes(x), Val::Bytes(y)) => x.iter_mut().zip(y).for_each(|(p, q)| *p ^= *q),
        (Val::Opt(Some(x)), Val::Opt(Some(y))) => xor_into(x, y),
        (Val::Tup(x), Val::Tup(y)) | (Val::Seq(x), Val::Seq(y)) => x.iter_mut().zip(y).for_each(|(p, q)| xor_into(p, q)),
        _ => {}
    }
}

/// Collects every decoded 128-bit field of a message (for the C07 pool).
pub fn fields128(v: &Val, out: &mut Vec<u128>) {
    match v {
        Val::U128(x) => out.push(*x),
        Val::B16(x) => {
            out.push(u128::from_le_bytes(*x));
            out.push(u128::from_be_bytes(*x));
        }
        Val::Bytes(b) if b.len() >= 16 && b.len() % 16 <= 1 => {
            let off = b.len() % 16;
            for c in b[off..].chunks_exact(16) {
                out.push(u128::from_be_bytes(c.try_into().unwrap()));
                out.push(u128::from_le_bytes(c.try_into().unwrap()));
            }
        }
        Val::Opt(Some(x)) => fields128(x, out),
        Val::Tup(vs) | Val::Seq(vs) => vs.iter().for_each(|x| fields128(x, out)),
        _ => {}
    }
}
