//! Counting allocator (thread-local live/peak byte counters).  The binary installs it as the
//! global allocator; one simulated world = one thread, so the counters are per world.
use std::alloc::{GlobalAlloc, Layout, System};
use std::cell::Cell;

pub struct Counting;

thread_local! {
    static LIVE: Cell<isize> = const { Cell::new(0) };
    static PEAK: Cell<isize> = const { Cell::new(0) };
}

unsafe impl GlobalAlloc for Counting {
    unsafe fn alloc(&self, l: Layout) -> *mut u8 {
        let p = unsafe { System.alloc(l) };
        if !p.is_null() {
            let _ = LIVE.try_with(|c| {
                let v = c.get() + l.size() as isize;
                c.set(v);
                let _ = PEAK.try_with(|p| {
                    if v > p.get() {
                        p.set(v)
                    }
                });
            });
        }
        p
    }
    unsafe fn dealloc(&self, p: *mut u8, l: Layout) {
        unsafe { System.dealloc(p, l) };
        let _ = LIVE.try_with(|c| c.set(c.get() - l.size() as isize));
    }
    unsafe fn realloc(&self, p: *mut u8, l: Layout, new: usize) -> *mut u8 {
        let q = unsafe { System.realloc(p, l, new) };
        if !q.is_null() {
            let _ = LIVE.try_with(|c| {
                let v = c.get() + new as isize - l.size() as isize;
                c.set(v);
                let _ = PEAK.try_with(|p| {
                    if v > p.get() {
                        p.set(v)
                    }
                });
            });
        }
        q
    }
}

/// Resets the peak to the current live level and returns that level.
pub fn reset_world() -> usize {
    let live = LIVE.with(|c| c.get());
    PEAK.with(|p| p.set(live));
    live.max(0) as usize
}

pub fn world_peak() -> usize {
    PEAK.with(|p| p.get()).max(0) as usize
}
