//! Check framework: tiers, seeds, parallel drivers (proptest-based random search and systematic
//! enumeration), statistics, evidence files, known findings, replay files.
use std::collections::{BTreeMap, HashSet};
use std::hash::{Hash, Hasher};
use std::path::PathBuf;
use std::sync::Mutex;
use std::sync::atomic::{AtomicBool, AtomicU64, AtomicUsize, Ordering};
use std::time::Instant;

use proptest::strategy::Strategy;
use proptest::test_runner::{Config, RngSeed, TestCaseError, TestError, TestRunner};
use serde::{Deserialize, Serialize};
use serde_json::{Value, json};

#[derive(Clone, Copy, Debug, PartialEq, Eq)]
pub enum Tier {
    Quick,
    Thorough,
}

impl Tier {
    pub fn name(&self) -> &'static str {
        match self {
            Tier::Quick => "quick",
            Tier::Thorough => "thorough",
        }
    }
    pub fn pick<T>(&self, q: T, t: T) -> T {
        match self {
            Tier::Quick => q,
            Tier::Thorough => t,
        }
    }
}

pub fn verif_root() -> PathBuf {
    std::env::var("PVF_ROOT").map(PathBuf::from).unwrap_or_else(|_| PathBuf::from("/verif"))
}

pub fn threads() -> usize {
    std::env::var("PVF_THREADS").ok().and_then(|s| s.parse().ok()).unwrap_or_else(|| std::thread::available_parallelism().map(|n| n.get()).unwrap_or(8).min(16))
}

#[derive(Clone, Debug, Serialize, Deserialize)]
pub struct KnownEntry {
    pub property: String,
    pub signature: String,
    pub what: String,
}

#[derive(Clone, Debug, Default, Serialize, Deserialize)]
pub struct KnownFile {
    #[serde(default)]
    pub known: Vec<KnownEntry>,
    #[serde(default)]
    pub fixed: Vec<Value>,
}

/// A property violation found by a check.
#[derive(Clone, Debug)]
pub struct Fail {
    /// exact signature used for matching known findings
    pub signature: String,
    pub msg: String,
}

impl Fail {
    pub fn new(signature: impl Into<String>, msg: impl Into<String>) -> Self {
        Fail { signature: signature.into(), msg: msg.into() }
    }
}

/// What a case contributed to the statistics.
#[derive(Clone, Debug, Default)]
pub struct CaseInfo {
    /// `Some(hash)` if the case is non-trivial by the property's rule (hash of canonical descriptor)
    pub nontrivial: Option<u64>,
    pub classes: Vec<String>,
    pub sample: Option<Value>,
    pub undecided: bool,
    /// additional engine executions performed for this case beyond the first
    pub extra_runs: u64,
}

thread_local! {
    static JOURNAL_SLOT: std::cell::Cell<usize> = const { std::cell::Cell::new(usize::MAX) };
}
static JOURNAL_NEXT: AtomicUsize = AtomicUsize::new(0);

/// Crash journal: with PVF_JOURNAL=<dir> every worker thread writes the case it is about to
/// execute (as a replay document) to its own file, so that a case which kills the whole process
/// (allocation failure, stack overflow) can be identified by `bin/check` afterwards.
pub fn journal<T: Serialize>(id: &str, case: &T) {
    let Ok(dir) = std::env::var("PVF_JOURNAL") else { return };
    let slot = JOURNAL_SLOT.with(|s| {
        if s.get() == usize::MAX {
            s.set(JOURNAL_NEXT.fetch_add(1, Ordering::SeqCst));
        }
        s.get()
    });
    let doc = json!({"property": id, "signature": format!("{id}|process-abort"), "message": "the process died while executing this case", "case": case});
    let _ = std::fs::write(format!("{dir}/{id}-{slot}.json"), doc.to_string());
}

pub fn hash_of<T: Hash>(t: &T) -> u64 {
    let mut h = std::collections::hash_map::DefaultHasher::new();
    t.hash(&mut h);
    h.finish()
}

pub fn hash_json(v: &Value) -> u64 {
    hash_of(&v.to_string())
}

pub struct Ctx {
    pub id: &'static str,
    pub tier: Tier,
    pub seed: u64,
    pub level: &'static str,
    pub start: Instant,
    pub evaluations: AtomicU64,
    pub nontrivial: Mutex<HashSet<u64>>,
    pub hist: Mutex<BTreeMap<String, u64>>,
    pub samples: Mutex<Vec<Value>>,
    pub undecided: AtomicU64,
    pub known: Vec<KnownEntry>,
    pub known_hits: Mutex<BTreeMap<String, u64>>,
    pub violation: Mutex<Option<(Fail, Value)>>,
    pub stop: AtomicBool,
    pub rule: Mutex<String>,
    pub assumptions: Mutex<Vec<String>>,
    pub extra: Mutex<BTreeMap<String, Value>>,
    pub exhaustive: AtomicBool,
    pub strict: bool,
    pub infra_error: Mutex<Option<String>>,
}

impl Ctx {
    pub fn new(id: &'static str, tier: Tier, seed: u64, level: &'static str) -> Self {
        let known: KnownFile = std::fs::read_to_string(verif_root().join("known_findings.json")).ok().and_then(|s| serde_json::from_str(&s).ok()).unwrap_or_default();
        let strict = std::env::var("PVF_STRICT").map(|v| v == "1").unwrap_or(false);
        Ctx {
            id,
            tier,
            seed,
            level,
            start: Instant::now(),
            evaluations: AtomicU64::new(0),
            nontrivial: Mutex::new(HashSet::new()),
            hist: Mutex::new(BTreeMap::new()),
            samples: Mutex::new(vec![]),
            undecided: AtomicU64::new(0),
            known: known.known.into_iter().filter(|k| k.property == id).collect(),
            known_hits: Mutex::new(BTreeMap::new()),
            violation: Mutex::new(None),
            stop: AtomicBool::new(false),
            rule: Mutex::new(String::new()),
            assumptions: Mutex::new(vec![]),
            extra: Mutex::new(BTreeMap::new()),
            exhaustive: AtomicBool::new(false),
            strict,
            infra_error: Mutex::new(None),
        }
    }

    pub fn set_rule(&self, r: &str) {
        *self.rule.lock().unwrap() = r.to_string();
    }
    pub fn assume(&self, a: &str) {
        self.assumptions.lock().unwrap().push(a.to_string());
    }
    pub fn extra(&self, k: &str, v: Value) {
        self.extra.lock().unwrap().insert(k.to_string(), v);
    }
    pub fn count_class(&self, c: &str) {
        *self.hist.lock().unwrap().entry(c.to_string()).or_insert(0) += 1;
    }
    pub fn infra(&self, msg: String) {
        let mut g = self.infra_error.lock().unwrap();
        if g.is_none() {
            *g = Some(msg);
        }
        self.stop.store(true, Ordering::SeqCst);
    }

    pub fn record(&self, info: CaseInfo) {
        self.evaluations.fetch_add(1 + info.extra_runs, Ordering::Relaxed);
        if let Some(h) = info.nontrivial {
            self.nontrivial.lock().unwrap().insert(h);
        }
        if info.undecided {
            self.undecided.fetch_add(1, Ordering::Relaxed);
        }
        if !info.classes.is_empty() {
            let mut hist = self.hist.lock().unwrap();
            for c in info.classes {
                *hist.entry(c).or_insert(0) += 1;
            }
        }
        if let Some(s) = info.sample {
            let mut samples = self.samples.lock().unwrap();
            if samples.len() < 5 {
                samples.push(s);
            }
        }
    }

    /// Returns true if the failure is a listed known finding (counted, search continues).
    pub fn is_known(&self, f: &Fail) -> bool {
        if std::env::var("PVF_COLLECT").is_ok() {
            let mut hits = self.known_hits.lock().unwrap();
            let e = hits.entry(f.signature.clone()).or_insert(0);
            if *e == 0 {
                eprintln!("COLLECT {} :: {}", f.signature, f.msg);
            }
            *e += 1;
            return true;
        }
        if self.strict {
            return false;
        }
        if let Some(k) = self.known.iter().find(|k| k.signature == f.signature) {
            let mut hits = self.known_hits.lock().unwrap();
            *hits.entry(k.signature.clone()).or_insert(0) += 1;
            true
        } else {
            false
        }
    }

    pub fn report_violation(&self, f: Fail, case: Value) {
        let mut v = self.violation.lock().unwrap();
        if v.is_none() {
            *v = Some((f, case));
        }
        self.stop.store(true, Ordering::SeqCst);
    }

    pub fn stopped(&self) -> bool {
        self.stop.load(Ordering::SeqCst)
    }

    /// Writes evidence, prints KNOWN-FINDING / VIOLATION lines, returns the exit code.
    pub fn finish(&self) -> i32 {
        let wall = self.start.elapsed().as_secs_f64();
        if let Some(e) = self.infra_error.lock().unwrap().clone() {
            eprintln!("INCONCLUSIVE property={} {}", self.id, e);
            return 2;
        }
        let viol = self.violation.lock().unwrap().clone();
        let known_hits = self.known_hits.lock().unwrap().clone();
        for (sig, cnt) in &known_hits {
            let what = self.known.iter().find(|k| &k.signature == sig).map(|k| k.what.clone()).unwrap_or_default();
            println!("KNOWN-FINDING: property={} {} [signature={} hits={}]", self.id, what, sig, cnt);
        }
        let mut replay_path = None;
        if let Some((f, case)) = &viol {
            let dir = verif_root().join("replays");
            let _ = std::fs::create_dir_all(&dir);
            let path = dir.join(format!("{}-{}-{:016x}.json", self.id, self.tier.name(), hash_json(case)));
            let doc = json!({"property": self.id, "signature": f.signature, "message": f.msg, "seed": self.seed, "tier": self.tier.name(), "case": case});
            let _ = std::fs::write(&path, serde_json::to_string_pretty(&doc).unwrap());
            replay_path = Some(path);
        }
        let evaluations = self.evaluations.load(Ordering::Relaxed);
        let nontrivial = self.nontrivial.lock().unwrap().len();
        let mut coverage = serde_json::Map::new();
        coverage.insert("evaluations".into(), json!(evaluations));
        coverage.insert("distinct_nontrivial".into(), json!(nontrivial));
        coverage.insert("rule".into(), json!(self.rule.lock().unwrap().clone()));
        coverage.insert("samples".into(), json!(self.samples.lock().unwrap().clone()));
        coverage.insert("class_histogram".into(), json!(self.hist.lock().unwrap().clone()));
        coverage.insert("undecided".into(), json!(self.undecided.load(Ordering::Relaxed)));
        coverage.insert("known_finding_hits".into(), json!(known_hits));
        if self.exhaustive.load(Ordering::Relaxed) {
            coverage.insert("exhaustive".into(), json!(true));
        }
        for (k, v) in self.extra.lock().unwrap().iter() {
            coverage.insert(k.clone(), v.clone());
        }
        let ev = json!({
            "property_id": self.id,
            "tier": self.tier.name(),
            "seed": self.seed,
            "level": self.level,
            "coverage": Value::Object(coverage),
            "assumptions": self.assumptions.lock().unwrap().clone(),
            "wall_s": wall,
            "violations": if viol.is_some() { 1 } else { 0 },
        });
        let evdir = verif_root().join("evidence");
        let _ = std::fs::create_dir_all(&evdir);
        if std::env::var("PVF_NO_EVIDENCE").is_err() {
            let _ = std::fs::write(evdir.join(format!("{}.json", self.id)), serde_json::to_string_pretty(&ev).unwrap());
        }
        println!(
            "{} {} seed={} evaluations={} distinct_nontrivial={} undecided={} wall={:.1}s",
            self.id,
            self.tier.name(),
            self.seed,
            evaluations,
            nontrivial,
            self.undecided.load(Ordering::Relaxed),
            wall
        );
        if let Some((f, _)) = viol {
            println!("violation: {} :: {}", f.signature, f.msg);
            println!("VIOLATION property={} replay={}", self.id, replay_path.unwrap().display());
            1
        } else {
            0
        }
    }
}

/// Random search: `total` cases sharded over worker threads, each with its own proptest runner
/// seeded from (seed, worker).  `test` returns the statistics of a passing case or a failure.
/// On failure proptest shrinks the case; the minimal case becomes the replay file.
pub fn prop_search<S, T, F, Mk>(ctx: &Ctx, label: &str, total: u32, make_strategy: Mk, test: F)
where
    Mk: Fn() -> S + Sync,
    S: Strategy<Value = T>,
    T: std::fmt::Debug + Serialize + Clone,
    F: Fn(&T) -> Result<CaseInfo, Fail> + Sync,
{
    let workers = threads().min(total.max(1) as usize);
    let per = total.div_ceil(workers as u32);
    let label_hash = hash_of(&label.to_string());
    std::thread::scope(|s| {
        for w in 0..workers {
            let test = &test;
            let make_strategy = &make_strategy;
            s.spawn(move || {
                let cfg = Config {
                    cases: per,
                    rng_seed: RngSeed::Fixed(ctx.seed ^ label_hash ^ ((w as u64 + 1).wrapping_mul(0x9E3779B97F4A7C15))),
                    failure_persistence: None,
                    max_shrink_iters: 400,
                    max_global_rejects: 100_000,
                    ..Config::default()
                };
                let mut runner = TestRunner::new(cfg);
                let failed = AtomicBool::new(false);
                let last_fail: Mutex<Option<Fail>> = Mutex::new(None);
                // shrinking is bounded by wall-clock (minimality only, never the verdict): expensive
                // cases would otherwise shrink for half an hour
                let shrink_start: Mutex<Option<std::time::Instant>> = Mutex::new(None);
                let r = runner.run(&make_strategy(), |case| {
                    if ctx.stopped() && !failed.load(Ordering::SeqCst) {
                        // another worker found a violation: stop generating (counts nothing)
                        return Ok(());
                    }
                    if failed.load(Ordering::SeqCst) {
                        let mut st = shrink_start.lock().unwrap();
                        let t0 = *st.get_or_insert_with(std::time::Instant::now);
                        if t0.elapsed().as_secs() > 90 || std::env::var("PVF_NO_SHRINK").is_ok() {
                            return Ok(());
                        }
                    }
                    journal(ctx.id, &case);
                    match test(&case) {
                        Ok(info) => {
                            if !failed.load(Ordering::SeqCst) {
                                ctx.record(info);
                            }
                            Ok(())
                        }
                        Err(f) => {
                            if !failed.load(Ordering::SeqCst) && ctx.is_known(&f) {
                                ctx.record(CaseInfo { classes: vec![format!("known:{}", f.signature)], ..Default::default() });
                                return Ok(());
                            }
                            if failed.load(Ordering::SeqCst) {
                                // shrinking: only accept the same signature as a reproduction
                                let same = last_fail.lock().unwrap().as_ref().map(|l| l.signature == f.signature).unwrap_or(true);
                                if !same {
                                    return Ok(());
                                }
                            } else {
                                ctx.evaluations.fetch_add(1, Ordering::Relaxed);
                            }
                            failed.store(true, Ordering::SeqCst);
                            let msg = f.msg.clone();
                            *last_fail.lock().unwrap() = Some(f);
                            Err(TestCaseError::fail(msg))
                        }
                    }
                });
                match r {
                    Ok(()) => {}
                    Err(TestError::Fail(_, case)) => {
                        let f = last_fail.lock().unwrap().clone().unwrap_or(Fail::new("unknown", "unknown"));
                        ctx.report_violation(f, serde_json::to_value(&case).unwrap_or(Value::Null));
                    }
                    Err(TestError::Abort(r)) => {
                        ctx.infra(format!("proptest aborted in {label}: {r}"));
                    }
                }
            });
        }
    });
}

/// Systematic enumeration: every case of `cases` is executed (in parallel); a failing case is
/// reported as is (enumerated cases are single-fault and minimal by construction).
pub fn enumerate<T, F>(ctx: &Ctx, cases: &[T], test: F)
where
    T: Sync + Serialize,
    F: Fn(&T) -> Result<CaseInfo, Fail> + Sync,
{
    enumerate_with(ctx, cases, test, threads())
}

/// `enumerate` with a given number of worker threads (1 = nothing else runs in the process
/// meanwhile: for cases that look at process-wide state of the engine).
pub fn enumerate_with<T, F>(ctx: &Ctx, cases: &[T], test: F, max_workers: usize)
where
    T: Sync + Serialize,
    F: Fn(&T) -> Result<CaseInfo, Fail> + Sync,
{
    let next = AtomicUsize::new(0);
    let workers = max_workers.max(1).min(cases.len().max(1));
    std::thread::scope(|s| {
        for _ in 0..workers {
            s.spawn(|| {
                loop {
                    if ctx.stopped() {
                        break;
                    }
                    let i = next.fetch_add(1, Ordering::SeqCst);
                    if i >= cases.len() {
                        break;
                    }
                    journal(ctx.id, &cases[i]);
                    match test(&cases[i]) {
                        Ok(info) => ctx.record(info),
                        Err(f) => {
                            ctx.evaluations.fetch_add(1, Ordering::Relaxed);
                            if ctx.is_known(&f) {
                                ctx.count_class(&format!("known:{}", f.signature));
                            } else {
                                ctx.report_violation(f, serde_json::to_value(&cases[i]).unwrap_or(Value::Null));
                            }
                        }
                    }
                }
            });
        }
    });
}

/// Replay helper: runs `test` up to `attempts` times on the stored case, returns the exit code.
pub fn replay_case<T, F>(id: &str, path: &str, attempts: usize, test: F) -> i32
where
    T: for<'de> Deserialize<'de>,
    F: Fn(&T) -> Result<CaseInfo, Fail>,
{
    let text = match std::fs::read_to_string(path) {
        Ok(t) => t,
        Err(e) => {
            eprintln!("cannot read {path}: {e}");
            return 2;
        }
    };
    let doc: Value = match serde_json::from_str(&text) {
        Ok(v) => v,
        Err(e) => {
            eprintln!("bad replay file: {e}");
            return 2;
        }
    };
    let case: T = match serde_json::from_value(doc["case"].clone()) {
        Ok(c) => c,
        Err(e) => {
            eprintln!("replay case does not decode for {id}: {e}");
            return 2;
        }
    };
    let mut fails = 0;
    let mut last = None;
    for _ in 0..attempts {
        if let Err(f) = test(&case) {
            fails += 1;
            last = Some(f);
        }
    }
    println!("replay {id}: {fails}/{attempts} attempts failed");
    if let Some(f) = last {
        println!("violation: {} :: {}", f.signature, f.msg);
        println!("VIOLATION property={id} replay={path}");
        1
    } else {
        0
    }
}
