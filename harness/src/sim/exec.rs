//! Deterministic single-threaded executor: polls the parties' futures under a scheduling
//! strategy chosen by the harness, detects deadlock exactly, catches panics.
use std::cell::RefCell;
use std::future::Future;
use std::panic::{AssertUnwindSafe, catch_unwind};
use std::pin::Pin;
use std::sync::atomic::{AtomicBool, Ordering};
use std::sync::{Arc, Mutex, Once};
use std::task::{Context, Poll, Wake, Waker};

use super::net::{Event, MsgRec, Net, SimChannel};
use super::sched::{Action, Sched};

#[derive(Clone, Debug, PartialEq)]
pub enum Outcome<T> {
    Ok(T),
    Err(String),
    Panic(String),
    /// nothing enabled, this party unfinished; peers it waits on
    Stalled(Vec<usize>),
    /// dropped by the harness (crash injection)
    Crashed,
    /// step budget exhausted (inconclusive)
    Budget,
}

impl<T> Outcome<T> {
    pub fn class(&self) -> &'static str {
        match self {
            Outcome::Ok(_) => "ok",
            Outcome::Err(_) => "err",
            Outcome::Panic(_) => "panic",
            Outcome::Stalled(_) => "stalled",
            Outcome::Crashed => "crashed",
            Outcome::Budget => "budget",
        }
    }
    pub fn is_ok(&self) -> bool {
        matches!(self, Outcome::Ok(_))
    }
    pub fn is_err(&self) -> bool {
        matches!(self, Outcome::Err(_))
    }
}

pub struct RunResult<T> {
    pub outcomes: Vec<Outcome<T>>,
    pub events: Vec<Event>,
    pub msgs: Vec<MsgRec>,
    pub probes: Vec<polytune::verif::Probe>,
    pub steps: usize,
    pub m1: Option<String>,
    /// inbox sizes at the end
    pub leftover: Vec<usize>,
    pub bytes_delivered: Vec<usize>,
    /// peak bytes allocated in this world above the level at its start (counting allocator)
    pub alloc_peak: usize,
    /// the order in which (from,to) deliveries happened, hashed
    pub trace_hash: u64,
    pub nondefault_choices: usize,
}

struct FlagWaker(AtomicBool);
impl Wake for FlagWaker {
    fn wake(self: Arc<Self>) {
        self.0.store(true, Ordering::SeqCst);
    }
    fn wake_by_ref(self: &Arc<Self>) {
        self.0.store(true, Ordering::SeqCst);
    }
}

thread_local! {
    static IN_SIM: RefCell<bool> = const { RefCell::new(false) };
    static LAST_PANIC: RefCell<Option<String>> = const { RefCell::new(None) };
}

static HOOK: Once = Once::new();

pub fn install_panic_hook() {
    HOOK.call_once(|| {
        let prev = std::panic::take_hook();
        std::panic::set_hook(Box::new(move |info| {
            let in_sim = IN_SIM.with(|f| *f.borrow());
            if in_sim {
                let msg = if let Some(s) = info.payload().downcast_ref::<&str>() {
                    s.to_string()
                } else if let Some(s) = info.payload().downcast_ref::<String>() {
                    s.clone()
                } else {
                    "<non-string panic>".to_string()
                };
                let loc = info.location().map(|l| format!("{}:{}", l.file(), l.line())).unwrap_or_default();
                LAST_PANIC.with(|p| *p.borrow_mut() = Some(format!("{msg} @ {loc}")));
            } else {
                prev(info);
            }
        }));
    });
}

/// Runs `f` with panics inside it captured silently (message @ location) instead of printed.
pub fn quiet_panics<R>(f: impl FnOnce() -> R) -> Result<R, String> {
    install_panic_hook();
    let prev = IN_SIM.with(|s| std::mem::replace(&mut *s.borrow_mut(), true));
    let r = catch_unwind(AssertUnwindSafe(f));
    IN_SIM.with(|s| *s.borrow_mut() = prev);
    r.map_err(|_| LAST_PANIC.with(|p| p.borrow_mut().take()).unwrap_or_else(|| "panic".into()))
}

/// A subscriber that enables every span and event and discards them: with it, the field
/// expressions of `#[instrument]` spans and of events are evaluated as they are under verbose logging.
pub struct EnableAll(std::sync::atomic::AtomicU64);

impl EnableAll {
    pub fn new() -> Self {
        EnableAll(std::sync::atomic::AtomicU64::new(1))
    }
}

impl Default for EnableAll {
    fn default() -> Self {
        Self::new()
    }
}

impl tracing::Subscriber for EnableAll {
    fn enabled(&self, _: &tracing::Metadata<'_>) -> bool {
        true
    }
    fn new_span(&self, attrs: &tracing::span::Attributes<'_>) -> tracing::span::Id {
        // format the fields as a logging subscriber would
        struct V;
        impl tracing::field::Visit for V {
            fn record_debug(&mut self, _: &tracing::field::Field, value: &dyn std::fmt::Debug) {
                let _ = format!("{value:?}");
            }
        }
        attrs.record(&mut V);
        tracing::span::Id::from_u64(self.0.fetch_add(1, Ordering::Relaxed))
    }
    fn record(&self, _: &tracing::span::Id, _: &tracing::span::Record<'_>) {}
    fn record_follows_from(&self, _: &tracing::span::Id, _: &tracing::span::Id) {}
    fn event(&self, event: &tracing::Event<'_>) {
        struct V;
        impl tracing::field::Visit for V {
            fn record_debug(&mut self, _: &tracing::field::Field, value: &dyn std::fmt::Debug) {
                let _ = format!("{value:?}");
            }
        }
        event.record(&mut V);
    }
    fn enter(&self, _: &tracing::span::Id) {}
    fn exit(&self, _: &tracing::span::Id) {}
}

pub type Task<T> = Pin<Box<dyn Future<Output = Result<T, String>>>>;

pub struct World {
    pub net: Arc<Mutex<Net>>,
    pub n: usize,
}

impl World {
    pub fn new(n: usize, cap: usize) -> Self {
        World { net: Arc::new(Mutex::new(Net::new(n, cap))), n }
    }
    pub fn channel(&self, me: usize) -> SimChannel {
        SimChannel { net: self.net.clone(), me }
    }
}

pub struct ExecCfg {
    pub step_budget: usize,
    pub record_probes: bool,
    /// a send never completes in the poll that issued it (it stays outstanding for one scheduling
    /// step, as on a transport where a send is a request of its own): sends joined concurrently
    /// towards one peer then overlap in time and the monitor m1 sees them
    pub slow_sends: bool,
}

impl Default for ExecCfg {
    fn default() -> Self {
        ExecCfg { step_budget: 5_000_000, record_probes: true, slow_sends: false }
    }
}

thread_local! {
    /// run the next worlds of this thread under a subscriber that enables every span and event
    pub static VERBOSE_TRACING: std::cell::Cell<bool> = const { std::cell::Cell::new(false) };
}

/// Drives the tasks (one per endpoint) to completion under `sched`.
/// `arm` is called after the hook state was reset and before the first poll (to arm taps).
pub fn run_world<T>(world: &World, tasks: Vec<Option<Task<T>>>, sched: &mut dyn Sched, cfg: &ExecCfg, arm: impl FnOnce()) -> RunResult<T> {
    if VERBOSE_TRACING.with(|v| v.get()) {
        tracing::subscriber::with_default(EnableAll::new(), || run_world_inner(world, tasks, sched, cfg, arm))
    } else {
        run_world_inner(world, tasks, sched, cfg, arm)
    }
}

fn run_world_inner<T>(
    world: &World,
    mut tasks: Vec<Option<Task<T>>>,
    sched: &mut dyn Sched,
    cfg: &ExecCfg,
    arm: impl FnOnce(),
) -> RunResult<T> {
    install_panic_hook();
    let n = world.n;
    assert_eq!(tasks.len(), n);
    polytune::verif::reset(cfg.record_probes);
    arm();
    let flags: Vec<Arc<FlagWaker>> = (0..n).map(|_| Arc::new(FlagWaker(AtomicBool::new(true)))).collect();
    let wakers: Vec<Waker> = flags.iter().map(|f| Waker::from(f.clone())).collect();
    let mut outcomes: Vec<Option<Outcome<T>>> = (0..n).map(|_| None).collect();
    let mut steps = 0usize;
    let mut trace_hash: u64 = 0xcbf29ce484222325;
    let mut nondefault = 0usize;
    let alloc_base = crate::alloc::reset_world();
    IN_SIM.with(|f| *f.borrow_mut() = true);
    let mut final_sweep_done = false;
    loop {
        // enabled actions
        let mut enabled: Vec<Action> = vec![];
        {
            let net = world.net.lock().unwrap();
            for (a, b) in net.deliverable() {
                enabled.push(Action::Deliver(a, b));
            }
            for (a, b) in net.acceptable() {
                enabled.push(Action::Accept(a, b));
            }
        }
        for p in 0..n {
            if outcomes[p].is_none() && tasks[p].is_some() && flags[p].0.load(Ordering::SeqCst) {
                enabled.push(Action::Poll(p));
            }
        }
        let unfinished: Vec<usize> = (0..n).filter(|p| outcomes[*p].is_none()).collect();
        if unfinished.is_empty() {
            // deliver nothing more; done
            break;
        }
        if enabled.is_empty() {
            {
                // rushing adversary: nothing else can happen, so the held messages go out as they are
                let mut net = world.net.lock().unwrap();
                if net.has_held() && !net.release_all {
                    net.release_all = true;
                    continue;
                }
            }
            if !final_sweep_done {
                // robustness: re-poll every unfinished task once before declaring a stall
                for p in &unfinished {
                    flags[*p].0.store(true, Ordering::SeqCst);
                }
                final_sweep_done = true;
                continue;
            }
            let net = world.net.lock().unwrap();
            for p in unfinished {
                let mut on = net.blocked_recv_on(p);
                on.extend(net.blocked_send_on(p));
                on.sort();
                on.dedup();
                outcomes[p] = Some(Outcome::Stalled(on));
            }
            break;
        }
        if steps >= cfg.step_budget {
            for p in unfinished {
                outcomes[p] = Some(Outcome::Budget);
            }
            break;
        }
        steps += 1;
        let idx = {
            let net = world.net.lock().unwrap();
            sched.pick(&enabled, &net)
        };
        let idx = idx.min(enabled.len() - 1);
        if idx != 0 {
            nondefault += 1;
        }
        match enabled[idx] {
            Action::Deliver(a, b) => {
                world.net.lock().unwrap().deliver(a, b);
                trace_hash = (trace_hash ^ ((a * 31 + b) as u64 + 1)).wrapping_mul(0x100000001b3);
                final_sweep_done = false;
            }
            Action::Accept(a, b) => {
                world.net.lock().unwrap().accept(a, b);
                trace_hash = (trace_hash ^ ((a * 37 + b) as u64 + 5000)).wrapping_mul(0x100000001b3);
                final_sweep_done = false;
            }
            Action::Poll(p) => {
                flags[p].0.store(false, Ordering::SeqCst);
                polytune::verif::set_current_party(p);
                let mut cx = Context::from_waker(&wakers[p]);
                let before = world.net.lock().unwrap().events.len();
                let fut = tasks[p].as_mut().unwrap();
                let r = catch_unwind(AssertUnwindSafe(|| fut.as_mut().poll(&mut cx)));
                polytune::verif::set_current_party(usize::MAX);
                trace_hash = (trace_hash ^ (1000 + p as u64)).wrapping_mul(0x100000001b3);
                match r {
                    Ok(Poll::Ready(res)) => {
                        outcomes[p] = Some(match res {
                            Ok(v) => Outcome::Ok(v),
                            Err(e) => Outcome::Err(e),
                        });
                        tasks[p] = None;
                        world.net.lock().unwrap().close(p);
                    }
                    Ok(Poll::Pending) => {
                        let crash = { world.net.lock().unwrap().crash_now[p] };
                        if crash {
                            outcomes[p] = Some(Outcome::Crashed);
                            tasks[p] = None;
                            world.net.lock().unwrap().close(p);
                        }
                    }
                    Err(_) => {
                        let msg = LAST_PANIC.with(|m| m.borrow_mut().take()).unwrap_or_else(|| "panic".into());
                        outcomes[p] = Some(Outcome::Panic(msg));
                        // the panicked future is leaked, not dropped
                        if let Some(t) = tasks[p].take() {
                            std::mem::forget(t);
                        }
                        world.net.lock().unwrap().close(p);
                    }
                }
                if world.net.lock().unwrap().events.len() != before {
                    final_sweep_done = false;
                }
            }
        }
    }
    // drop unfinished tasks quietly
    for t in tasks.iter_mut() {
        if let Some(t) = t.take() {
            let _ = catch_unwind(AssertUnwindSafe(move || drop(t)));
        }
    }
    IN_SIM.with(|f| *f.borrow_mut() = false);
    let alloc_peak = crate::alloc::world_peak().saturating_sub(alloc_base);
    let probes = polytune::verif::take_probes();
    polytune::verif::reset(false);
    let mut net = world.net.lock().unwrap();
    net.proxy = None;
    let leftover = (0..n).map(|p| net.inbox_len(p)).collect();
    RunResult {
        outcomes: outcomes.into_iter().map(|o| o.unwrap_or(Outcome::Budget)).collect(),
        events: std::mem::take(&mut net.events),
        msgs: std::mem::take(&mut net.msgs),
        probes,
        steps,
        m1: net.m1.clone(),
        leftover,
        bytes_delivered: net.bytes_delivered.clone(),
        alloc_peak,
        trace_hash,
        nondefault_choices: nondefault,
    }
}
