//! SimNet: scheduler-controlled, recording, optionally adversarial network between the parties
//! of one simulated world.  One world lives on one OS thread; the mutex is never contended, it
//! only exists because the trusted dealer requires a `Send` channel handle.
use std::collections::{HashMap, VecDeque};
use std::future::poll_fn;
use std::sync::{Arc, Mutex};
use std::task::{Poll, Waker};

use polytune::channel::Channel;

#[derive(Clone, Copy, Debug, PartialEq, Eq)]
pub enum EvKind {
    SendStart,
    SendDone,
    SendFailed,
    RecvStart,
    RecvDone,
    RecvFailed,
    Finish,
}

#[derive(Clone, Debug)]
pub struct Event {
    pub seq: u64,
    pub party: usize,
    pub kind: EvKind,
    pub peer: usize,
    /// label passed by the engine to the channel operation
    pub label: String,
    pub len: usize,
    /// message id for SendDone / RecvDone
    pub msg: Option<usize>,
}

/// A message that was handed to the network.
#[derive(Clone, Debug)]
pub struct MsgRec {
    pub id: usize,
    pub from: usize,
    pub to: usize,
    pub label: String,
    /// k-th message on the link from->to (0-based)
    pub link_idx: usize,
    /// k-th message with this label on the link
    pub label_occ: usize,
    /// k-th message sent by `from` to anyone
    pub sender_idx: usize,
    /// bytes as produced by the sender's code
    pub orig: Vec<u8>,
    /// bytes as put on the wire (differs from `orig` if the proxy rewrote it)
    pub wire: Vec<u8>,
    pub tampered: bool,
    pub delivered: bool,
    pub consumed: bool,
    pub seq_sent: u64,
    pub seq_recv: Option<u64>,
    /// rushing: held back by the adversary until every other party has sent its message of the
    /// same round (label, occurrence) to the sender; rewritten at delivery time
    pub held: bool,
    /// rushing: message towards the cheater that is rewritten so that the cheater's own (honest)
    /// code sees a consistent round
    pub held_in: bool,
}

#[derive(Clone, Debug)]
pub struct MsgMeta {
    pub from: usize,
    pub to: usize,
    pub label: String,
    pub link_idx: usize,
    pub label_occ: usize,
    pub sender_idx: usize,
}

pub enum ProxyAction {
    Pass,
    Replace(Vec<u8>),
    Drop,
    Duplicate,
}

pub type Proxy = Box<dyn FnMut(&MsgMeta, &[u8]) -> ProxyAction + Send>;
/// Which messages the adversary holds back (rushing).
pub type HoldPred = Box<dyn Fn(&MsgMeta) -> bool + Send>;
/// Rewrites a held message at delivery time, seeing everything sent so far.
pub type LateProxy = Box<dyn FnMut(&MsgRec, &[MsgRec]) -> Option<Vec<u8>> + Send>;

#[derive(Default)]
struct Link {
    /// slow sends: send operations waiting to be accepted / acceptances not yet consumed
    want: u32,
    tickets: u32,
    in_flight: VecDeque<usize>,
    visible: VecDeque<usize>,
    sent: usize,
    label_counts: HashMap<String, usize>,
}

#[derive(Debug, Clone)]
pub struct SimErr(pub String);

pub struct Net {
    pub n: usize,
    pub cap: usize,
    links: Vec<Vec<Link>>,
    pub closed: Vec<bool>,
    pub keep_open: bool,
    pub events: Vec<Event>,
    pub msgs: Vec<MsgRec>,
    seq: u64,
    wakers: Vec<Vec<Waker>>,
    sent_by: Vec<usize>,
    out_send: Vec<Vec<u32>>,
    out_recv: Vec<Vec<u32>>,
    /// monitor m1: more than one send / recv outstanding for one peer
    pub m1: Option<String>,
    pub proxy: Option<Proxy>,
    pub hold: Option<HoldPred>,
    pub late: Option<LateProxy>,
    /// set by the executor when nothing else can happen: held messages are released as they are
    pub release_all: bool,
    /// see `ExecCfg::slow_sends`
    pub slow_sends: bool,
    /// crash `party` when it tries to send its (k+1)-th message
    pub crash_after: Option<(usize, usize)>,
    pub crash_now: Vec<bool>,
    pub record_bytes: bool,
    /// bytes delivered to each party (for the allocation bound)
    pub bytes_delivered: Vec<usize>,
}

impl Net {
    pub fn new(n: usize, cap: usize) -> Self {
        Net {
            n,
            cap,
            links: (0..n).map(|_| (0..n).map(|_| Link::default()).collect()).collect(),
            closed: vec![false; n],
            keep_open: false,
            events: Vec::new(),
            msgs: Vec::new(),
            seq: 0,
            wakers: vec![Vec::new(); n],
            sent_by: vec![0; n],
            out_send: vec![vec![0; n]; n],
            out_recv: vec![vec![0; n]; n],
            m1: None,
            proxy: None,
            hold: None,
            late: None,
            release_all: false,
            slow_sends: false,
            crash_after: None,
            crash_now: vec![false; n],
            record_bytes: true,
            bytes_delivered: vec![0; n],
        }
    }

    fn ev(&mut self, party: usize, kind: EvKind, peer: usize, label: &str, len: usize, msg: Option<usize>) -> u64 {
        let seq = self.seq;
        self.seq += 1;
        self.events.push(Event { seq, party, kind, peer, label: label.to_string(), len, msg });
        seq
    }

    fn wake(&mut self, p: usize) {
        for w in self.wakers[p].drain(..) {
            w.wake();
        }
    }

    pub fn wake_all(&mut self) {
        for p in 0..self.n {
            self.wake(p);
        }
    }

    /// Links that have a message in flight (deliverable by the scheduler).
    pub fn deliverable(&self) -> Vec<(usize, usize)> {
        let mut v = vec![];
        for a in 0..self.n {
            for b in 0..self.n {
                if let Some(id) = self.links[a][b].in_flight.front() {
                    if (self.msgs[*id].held || self.msgs[*id].held_in) && !self.release_all && !self.round_complete(*id) {
                        continue;
                    }
                    v.push((a, b));
                }
            }
        }
        v
    }

    /// Has every other party sent its message of the same round to the sender of message `id`?
    /// (inbound: has the recipient sent its own message of that round to the sender?)
    fn round_complete(&self, id: usize) -> bool {
        let m = &self.msgs[id];
        if m.held_in {
            return self.msgs.iter().any(|x| x.from == m.to && x.to == m.from && x.label == m.label && x.label_occ == m.label_occ);
        }
        (0..self.n).filter(|j| *j != m.from).all(|j| self.msgs.iter().any(|x| x.from == j && x.to == m.from && x.label == m.label && x.label_occ == m.label_occ))
    }

    pub fn has_held(&self) -> bool {
        self.links.iter().flatten().any(|l| l.in_flight.front().map(|id| self.msgs[*id].held || self.msgs[*id].held_in).unwrap_or(false))
    }

    /// Links with a send operation that waits for the network to accept it (slow sends).
    pub fn acceptable(&self) -> Vec<(usize, usize)> {
        let mut v = vec![];
        for a in 0..self.n {
            for b in 0..self.n {
                if self.links[a][b].want > 0 {
                    v.push((a, b));
                }
            }
        }
        v
    }

    pub fn accept(&mut self, a: usize, b: usize) {
        if self.links[a][b].want > 0 {
            self.links[a][b].want -= 1;
            self.links[a][b].tickets += 1;
            self.wake(a);
        }
    }

    pub fn deliver(&mut self, a: usize, b: usize) {
        if let Some(id) = self.links[a][b].in_flight.front().copied() {
            if (self.msgs[id].held || self.msgs[id].held_in) && self.round_complete(id) {
                if let Some(mut late) = self.late.take() {
                    if let Some(nb) = late(&self.msgs[id], &self.msgs) {
                        if nb != self.msgs[id].wire {
                            self.msgs[id].wire = nb;
                            if self.msgs[id].held {
                                self.msgs[id].tampered = true;
                            }
                        }
                    }
                    self.late = Some(late);
                }
            }
        }
        if let Some(id) = self.links[a][b].in_flight.pop_front() {
            self.links[a][b].visible.push_back(id);
            self.msgs[id].delivered = true;
            self.wake(b);
        }
    }

    pub fn inbox_len(&self, p: usize) -> usize {
        (0..self.n).map(|a| self.links[a][p].in_flight.len() + self.links[a][p].visible.len()).sum()
    }

    pub fn close(&mut self, p: usize) {
        self.closed[p] = true;
        self.ev(p, EvKind::Finish, p, "", 0, None);
        self.wake_all();
    }

    /// which peers party `p` has a blocked receive on (registered wakers do not tell; we track outstanding)
    pub fn blocked_recv_on(&self, p: usize) -> Vec<usize> {
        (0..self.n).filter(|a| self.out_recv[p][*a] > 0).collect()
    }
    pub fn blocked_send_on(&self, p: usize) -> Vec<usize> {
        (0..self.n).filter(|a| self.out_send[p][*a] > 0).collect()
    }
}

#[derive(Clone)]
pub struct SimChannel {
    pub net: Arc<Mutex<Net>>,
    pub me: usize,
}

struct OpGuard<'a> {
    ch: &'a SimChannel,
    peer: usize,
    send: bool,
    active: bool,
}
impl Drop for OpGuard<'_> {
    fn drop(&mut self) {
        if self.active {
            if let Ok(mut net) = self.ch.net.lock() {
                let me = self.ch.me;
                if self.peer < net.n {
                    if self.send {
                        net.out_send[me][self.peer] -= 1;
                    } else {
                        net.out_recv[me][self.peer] -= 1;
                    }
                }
            }
        }
    }
}

impl Channel for SimChannel {
    type SendError = SimErr;
    type RecvError = SimErr;

    async fn send_bytes_to(&self, party: usize, data: Vec<u8>, phase: &str) -> Result<(), SimErr> {
        let me = self.me;
        let mut guard = OpGuard { ch: self, peer: party, send: true, active: false };
        {
            let mut net = self.net.lock().unwrap();
            net.ev(me, EvKind::SendStart, party, phase, data.len(), None);
            if party >= net.n || party == me {
                net.ev(me, EvKind::SendFailed, party, phase, data.len(), None);
                return Err(SimErr(format!("no such peer {party}")));
            }
            net.out_send[me][party] += 1;
            guard.active = true;
            if net.out_send[me][party] > 1 && net.m1.is_none() {
                net.m1 = Some(format!("party {me}: two sends outstanding to {party} ({phase})"));
            }
        }
        let mut data = Some(data);
        let mut yielded = false;
        let mut accepted = false;
        let r = poll_fn(|cx| {
            let mut net = self.net.lock().unwrap();
            if net.slow_sends && party < net.n && party != me && !accepted {
                // the send stays outstanding until the scheduler lets the network accept it
                if !yielded {
                    yielded = true;
                    net.links[me][party].want += 1;
                }
                if net.links[me][party].tickets == 0 && !(net.closed[party] && !net.keep_open) {
                    net.wakers[me].push(cx.waker().clone());
                    return Poll::Pending;
                }
                if net.links[me][party].tickets > 0 {
                    net.links[me][party].tickets -= 1;
                }
                accepted = true;
            }
            if net.closed[party] && !net.keep_open {
                let len = data.as_ref().map(|d| d.len()).unwrap_or(0);
                net.ev(me, EvKind::SendFailed, party, phase, len, None);
                return Poll::Ready(Err(SimErr(format!("peer {party} closed"))));
            }
            if let Some((p, k)) = net.crash_after {
                if p == me && net.sent_by[me] >= k {
                    net.crash_now[me] = true;
                    net.wakers[me].push(cx.waker().clone());
                    return Poll::Pending;
                }
            }
            let l = &net.links[me][party];
            if l.in_flight.len() + l.visible.len() >= net.cap {
                net.wakers[me].push(cx.waker().clone());
                return Poll::Pending;
            }
            let bytes = data.take().expect("polled after completion");
            let link_idx = net.links[me][party].sent;
            let label_occ = *net.links[me][party].label_counts.get(phase).unwrap_or(&0);
            let sender_idx = net.sent_by[me];
            net.links[me][party].sent += 1;
            *net.links[me][party].label_counts.entry(phase.to_string()).or_insert(0) += 1;
            net.sent_by[me] += 1;
            let meta = MsgMeta { from: me, to: party, label: phase.to_string(), link_idx, label_occ, sender_idx };
            let action = match net.proxy.as_mut() {
                Some(p) => p(&meta, &bytes),
                None => ProxyAction::Pass,
            };
            let held = net.hold.as_ref().map(|h| h(&meta)).unwrap_or(false);
            // the same round in the other direction: would the recipient hold its own message?
            let held_in = net.hold.as_ref().map(|h| h(&MsgMeta { from: party, to: me, ..meta.clone() })).unwrap_or(false);
            let mut wires: Vec<(Vec<u8>, bool)> = vec![];
            match action {
                ProxyAction::Pass => wires.push((bytes.clone(), false)),
                ProxyAction::Replace(b) => {
                    let t = b != bytes;
                    wires.push((b, t))
                }
                ProxyAction::Drop => {}
                ProxyAction::Duplicate => {
                    wires.push((bytes.clone(), false));
                    wires.push((bytes.clone(), true));
                }
            }
            let len = bytes.len();
            let mut first = None;
            let record = net.record_bytes;
            for (w, tampered) in wires {
                let id = net.msgs.len();
                let seq_sent = net.seq;
                net.msgs.push(MsgRec {
                    id,
                    from: me,
                    to: party,
                    label: phase.to_string(),
                    link_idx,
                    label_occ,
                    sender_idx,
                    orig: if record { bytes.clone() } else { vec![] },
                    wire: w,
                    tampered,
                    delivered: false,
                    consumed: false,
                    seq_sent,
                    seq_recv: None,
                    held,
                    held_in,
                });
                net.links[me][party].in_flight.push_back(id);
                first.get_or_insert(id);
            }
            net.ev(me, EvKind::SendDone, party, phase, len, first);
            Poll::Ready(Ok(()))
        })
        .await;
        drop(guard);
        r
    }

    async fn recv_bytes_from(&self, party: usize, phase: &str) -> Result<Vec<u8>, SimErr> {
        let me = self.me;
        let mut guard = OpGuard { ch: self, peer: party, send: false, active: false };
        {
            let mut net = self.net.lock().unwrap();
            net.ev(me, EvKind::RecvStart, party, phase, 0, None);
            if party >= net.n || party == me {
                net.ev(me, EvKind::RecvFailed, party, phase, 0, None);
                return Err(SimErr(format!("no such peer {party}")));
            }
            net.out_recv[me][party] += 1;
            guard.active = true;
            if net.out_recv[me][party] > 1 && net.m1.is_none() {
                net.m1 = Some(format!("party {me}: two receives outstanding from {party} ({phase})"));
            }
        }
        let r = poll_fn(|cx| {
            let mut net = self.net.lock().unwrap();
            if let Some(id) = net.links[party][me].visible.pop_front() {
                let wl = net.msgs[id].wire.len();
                let seq = net.ev(me, EvKind::RecvDone, party, phase, wl, Some(id));
                net.msgs[id].consumed = true;
                net.msgs[id].seq_recv = Some(seq);
                let bytes = if net.record_bytes { net.msgs[id].wire.clone() } else { std::mem::take(&mut net.msgs[id].wire) };
                net.bytes_delivered[me] += bytes.len();
                net.wake(party);
                return Poll::Ready(Ok(bytes));
            }
            if net.closed[party] && net.links[party][me].in_flight.is_empty() && !net.keep_open {
                net.ev(me, EvKind::RecvFailed, party, phase, 0, None);
                return Poll::Ready(Err(SimErr(format!("peer {party} closed"))));
            }
            net.wakers[me].push(cx.waker().clone());
            Poll::Pending
        })
        .await;
        drop(guard);
        r
    }
}
