pub mod exec;
pub mod net;
pub mod sched;
