//! Scheduling strategies.  Every strategy is a pure function of generated data.
use super::net::Net;

#[derive(Clone, Copy, Debug, PartialEq, Eq)]
pub enum Action {
    Deliver(usize, usize),
    Poll(usize),
    /// the network accepts one outstanding send of `from` towards `to` (only with slow sends)
    Accept(usize, usize),
}

pub trait Sched {
    /// returns an index into `enabled` (non-empty)
    fn pick(&mut self, enabled: &[Action], net: &Net) -> usize;
}

/// Deliver everything as soon as possible, poll the lowest enabled party.
pub struct Eager;
impl Sched for Eager {
    fn pick(&mut self, _enabled: &[Action], _net: &Net) -> usize {
        0
    }
}

/// SplitMix64, seeded from a generated value.
#[derive(Clone, Debug)]
pub struct Mix(pub u64);
impl Mix {
    pub fn next(&mut self) -> u64 {
        self.0 = self.0.wrapping_add(0x9E3779B97F4A7C15);
        let mut z = self.0;
        z = (z ^ (z >> 30)).wrapping_mul(0xBF58476D1CE4E5B9);
        z = (z ^ (z >> 27)).wrapping_mul(0x94D049BB133111EB);
        z ^ (z >> 31)
    }
    pub fn below(&mut self, n: usize) -> usize {
        ((self.next() >> 11) as u128 * n as u128 >> 53) as usize
    }
}

/// Generated description of a schedule.
#[derive(Clone, Debug, PartialEq, Eq, serde::Serialize, serde::Deserialize)]
pub enum SchedSpec {
    Eager,
    /// choice vector: byte k decides step k (monotone map onto the enabled set), then Eager
    Choices(Vec<u8>),
    /// uniformly random among enabled actions
    Random(u64),
    /// PCT-style: random priorities for parties and links, `d` priority change points
    Pct { seed: u64, d: u8, horizon: u32 },
    /// never poll / deliver to party p unless nothing else is enabled
    Starve(u8),
    /// deliver only when no poll is enabled (messages stay in flight as long as possible)
    LazyDelivery(u64),
    /// poll the highest-index party first, deliver last link first
    Reverse,
}

impl SchedSpec {
    pub fn build(&self) -> Box<dyn Sched> {
        match self {
            SchedSpec::Eager => Box::new(Eager),
            SchedSpec::Choices(v) => Box::new(Choices { v: v.clone(), i: 0 }),
            SchedSpec::Random(s) => Box::new(RandomSched(Mix(*s))),
            SchedSpec::Pct { seed, d, horizon } => Box::new(Pct::new(*seed, *d, *horizon)),
            SchedSpec::Starve(p) => Box::new(Starve(*p as usize)),
            SchedSpec::LazyDelivery(s) => Box::new(Lazy(Mix(*s))),
            SchedSpec::Reverse => Box::new(Reverse),
        }
    }
    pub fn kind(&self) -> &'static str {
        match self {
            SchedSpec::Eager => "eager",
            SchedSpec::Choices(_) => "choices",
            SchedSpec::Random(_) => "random",
            SchedSpec::Pct { .. } => "pct",
            SchedSpec::Starve(_) => "starve",
            SchedSpec::LazyDelivery(_) => "lazy",
            SchedSpec::Reverse => "reverse",
        }
    }
}

struct Choices {
    v: Vec<u8>,
    i: usize,
}
impl Sched for Choices {
    fn pick(&mut self, enabled: &[Action], _net: &Net) -> usize {
        if self.i < self.v.len() {
            let b = self.v[self.i] as usize;
            self.i += 1;
            (b * enabled.len()) >> 8
        } else {
            0
        }
    }
}

struct RandomSched(Mix);
impl Sched for RandomSched {
    fn pick(&mut self, enabled: &[Action], _net: &Net) -> usize {
        self.0.below(enabled.len())
    }
}

struct Reverse;
impl Sched for Reverse {
    fn pick(&mut self, enabled: &[Action], _net: &Net) -> usize {
        // last poll if any, else last deliver
        enabled.len() - 1
    }
}

struct Starve(usize);
impl Sched for Starve {
    fn pick(&mut self, enabled: &[Action], _net: &Net) -> usize {
        let p = self.0;
        for (i, a) in enabled.iter().enumerate() {
            match a {
                Action::Deliver(_, b) if *b != p => return i,
                Action::Poll(q) if *q != p => return i,
                Action::Accept(a, _) if *a != p => return i,
                _ => {}
            }
        }
        0
    }
}

struct Lazy(Mix);
impl Sched for Lazy {
    fn pick(&mut self, enabled: &[Action], _net: &Net) -> usize {
        let polls: Vec<usize> = enabled.iter().enumerate().filter(|(_, a)| matches!(a, Action::Poll(_))).map(|(i, _)| i).collect();
        if !polls.is_empty() {
            polls[self.0.below(polls.len())]
        } else {
            self.0.below(enabled.len())
        }
    }
}

struct Pct {
    rng: Mix,
    prio: std::collections::HashMap<(u8, usize, usize), u64>,
    change_at: Vec<u32>,
    step: u32,
}
impl Pct {
    fn new(seed: u64, d: u8, horizon: u32) -> Self {
        let mut rng = Mix(seed);
        let change_at = (0..d).map(|_| (rng.next() % horizon.max(1) as u64) as u32).collect();
        Pct { rng, prio: Default::default(), change_at, step: 0 }
    }
    fn key(a: &Action) -> (u8, usize, usize) {
        match a {
            Action::Deliver(x, y) => (0, *x, *y),
            Action::Poll(p) => (1, *p, 0),
            Action::Accept(x, y) => (2, *x, *y),
        }
    }
}
impl Sched for Pct {
    fn pick(&mut self, enabled: &[Action], _net: &Net) -> usize {
        self.step += 1;
        let mut best = 0;
        let mut bestp = 0u64;
        for (i, a) in enabled.iter().enumerate() {
            let k = Self::key(a);
            let rng = &mut self.rng;
            let p = *self.prio.entry(k).or_insert_with(|| (rng.next() >> 8) + 1_000);
            if i == 0 || p > bestp {
                best = i;
                bestp = p;
            }
        }
        if self.change_at.contains(&self.step) {
            // demote the action that would have run
            let k = Self::key(&enabled[best]);
            let low = self.rng.next() % 1000;
            self.prio.insert(k, low);
        }
        best
    }
}
