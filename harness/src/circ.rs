//! Circuit specs (serialisable), by-construction generators and the independent clear-text
//! interpreter used as oracle.
use garble_lang::register_circuit::{And, Circuit, Input, Inst, Not, Op, Reg, Xor};
use proptest::prelude::*;
use serde::{Deserialize, Serialize};

use crate::sim::sched::Mix;

#[derive(Clone, Copy, Debug, PartialEq, Eq, Serialize, Deserialize)]
pub enum GOp {
    Xor(u32, u32),
    And(u32, u32),
    Not(u32),
    Input { party: u32, input: u32 },
}

#[derive(Clone, Debug, PartialEq, Eq, Serialize, Deserialize)]
pub struct CircSpec {
    pub input_regs: Vec<usize>,
    pub insts: Vec<(u32, GOp)>,
    pub max_reg_count: usize,
    pub output_regs: Vec<u32>,
    pub and_ops: usize,
}

impl CircSpec {
    pub fn n(&self) -> usize {
        self.input_regs.len()
    }
    pub fn to_circuit(&self) -> Circuit {
        Circuit {
            input_regs: self.input_regs.clone(),
            insts: self
                .insts
                .iter()
                .map(|(out, op)| Inst {
                    out: Reg(*out),
                    op: match *op {
                        GOp::Xor(a, b) => Op::Xor(Xor(Reg(a), Reg(b))),
                        GOp::And(a, b) => Op::And(And(Reg(a), Reg(b))),
                        GOp::Not(a) => Op::Not(Not(Reg(a))),
                        GOp::Input { party, input } => Op::Input(Input { party, input }),
                    },
                })
                .collect(),
            max_reg_count: self.max_reg_count,
            output_regs: self.output_regs.iter().map(|r| Reg(*r)).collect(),
            and_ops: self.and_ops,
        }
    }

    /// Independent clear-text interpreter (does not use `Circuit::eval`).
    pub fn eval(&self, inputs: &[Vec<bool>]) -> Vec<bool> {
        let mut regs = vec![false; self.max_reg_count.max(1)];
        for (out, op) in &self.insts {
            let v = match *op {
                GOp::Xor(a, b) => regs[a as usize] != regs[b as usize],
                GOp::And(a, b) => regs[a as usize] && regs[b as usize],
                GOp::Not(a) => !regs[a as usize],
                GOp::Input { party, input } => inputs[party as usize][input as usize],
            };
            regs[*out as usize] = v;
        }
        self.output_regs.iter().map(|r| regs[*r as usize]).collect()
    }

    pub fn num_inputs(&self) -> usize {
        self.input_regs.iter().sum()
    }

    pub fn count_ands(&self) -> usize {
        self.insts.iter().filter(|(_, o)| matches!(o, GOp::And(..))).count()
    }

    /// feature flags used for the class histogram
    pub fn features(&self) -> CircFeatures {
        let ni = self.num_inputs();
        let mut set = vec![false; self.max_reg_count];
        let mut reuse = false;
        let mut same_operand = false;
        let mut nots = 0;
        for (out, op) in &self.insts {
            if set[*out as usize] {
                reuse = true;
            }
            set[*out as usize] = true;
            match op {
                GOp::Xor(a, b) | GOp::And(a, b) if a == b => same_operand = true,
                GOp::Not(_) => nots += 1,
                _ => {}
            }
        }
        let mut o = self.output_regs.clone();
        o.sort();
        let dup_out = o.windows(2).any(|w| w[0] == w[1]);
        // an output that is an untouched input register
        let mut overwritten = vec![false; self.max_reg_count];
        for (out, op) in &self.insts {
            if !matches!(op, GOp::Input { .. }) {
                overwritten[*out as usize] = true;
            }
        }
        let out_is_input = self.output_regs.iter().any(|r| (*r as usize) < ni && !overwritten[*r as usize]);
        CircFeatures {
            ands: self.count_ands(),
            reuse,
            same_operand,
            nots,
            dup_out,
            out_is_input,
            zero_input_party: self.input_regs.iter().any(|c| *c == 0),
        }
    }
}

#[derive(Clone, Debug, Default)]
pub struct CircFeatures {
    pub ands: usize,
    pub reuse: bool,
    pub same_operand: bool,
    pub nots: usize,
    pub dup_out: bool,
    pub out_is_input: bool,
    pub zero_input_party: bool,
}

/// One generated gate description; all indices are mapped monotonically onto the valid sets.
#[derive(Clone, Copy, Debug)]
pub struct GateDesc {
    pub kind: u8,
    pub a: u16,
    pub b: u16,
    pub out: u16,
    pub flags: u8,
}

fn gate_desc() -> impl Strategy<Value = GateDesc> {
    (any::<u8>(), any::<u16>(), any::<u16>(), any::<u16>(), any::<u8>()).prop_map(|(kind, a, b, out, flags)| GateDesc { kind, a, b, out, flags })
}

fn idx(v: u16, len: usize) -> usize {
    ((v as usize) * len) >> 16
}

/// Builds a valid circuit from generated descriptions.  `weights` = (xor, and, not) out of 256.
pub fn build_circuit(
    input_counts: &[usize],
    extra_regs: usize,
    gates: &[GateDesc],
    bulk: Option<(usize, u64, usize)>, // (count, seed, insert position)
    outputs: &[u16],
    and_weight: u8,
) -> CircSpec {
    let ni: usize = input_counts.iter().sum();
    let max_reg_count = ni + extra_regs;
    let mut insts = vec![];
    let mut r = 0u32;
    for (p, c) in input_counts.iter().enumerate() {
        for i in 0..*c {
            insts.push((r, GOp::Input { party: p as u32, input: i as u32 }));
            r += 1;
        }
    }
    let mut set: Vec<u32> = (0..ni as u32).collect();
    let mut is_set = vec![false; max_reg_count];
    for s in &set {
        is_set[*s as usize] = true;
    }
    let mut ands = 0usize;
    let push_gate = |g: &GateDesc, set: &mut Vec<u32>, is_set: &mut Vec<bool>, insts: &mut Vec<(u32, GOp)>, ands: &mut usize| {
        let pick = |v: u16, recent: bool, set: &Vec<u32>| -> u32 {
            if recent {
                let k = set.len().min(4);
                set[set.len() - k + idx(v, k)]
            } else {
                set[idx(v, set.len())]
            }
        };
        let a = pick(g.a, g.flags & 1 != 0, set);
        let mut b = pick(g.b, g.flags & 2 != 0, set);
        if g.flags & 0b1110_0000 == 0b1110_0000 {
            b = a; // x op x with probability 1/8
        }
        let out = if g.flags & 4 != 0 {
            // reuse: any register (operand, stale or input register)
            idx(g.out, max_reg_count) as u32
        } else {
            match is_set.iter().position(|s| !*s) {
                Some(u) => u as u32,
                None => idx(g.out, max_reg_count) as u32,
            }
        };
        let op = if g.kind < and_weight {
            *ands += 1;
            GOp::And(a, b)
        } else if g.kind < and_weight.saturating_add(((256 - and_weight as usize) / 4) as u8) {
            GOp::Not(a)
        } else {
            GOp::Xor(a, b)
        };
        insts.push((out, op));
        if !is_set[out as usize] {
            is_set[out as usize] = true;
            set.push(out);
        } else {
            // keep "recent" meaningful: move to the back
            if let Some(pos) = set.iter().position(|x| *x == out) {
                set.remove(pos);
            }
            set.push(out);
        }
    };
    let bulk_pos = bulk.map(|(_, _, pos)| pos.min(gates.len()));
    for (gi, g) in gates.iter().enumerate() {
        if Some(gi) == bulk_pos {
            push_bulk(bulk.unwrap(), max_reg_count, &mut set, &mut is_set, &mut insts, &mut ands);
        }
        push_gate(g, &mut set, &mut is_set, &mut insts, &mut ands);
    }
    if bulk_pos == Some(gates.len()) {
        push_bulk(bulk.unwrap(), max_reg_count, &mut set, &mut is_set, &mut insts, &mut ands);
    }
    let mut output_regs: Vec<u32> = if outputs.is_empty() { vec![*set.last().unwrap()] } else { outputs.iter().map(|o| set[idx(*o, set.len())]).collect() };
    if outputs.len() >= 96 {
        // dense output class: every live register is an output (many unique output wires)
        let mut all = set.clone();
        all.extend(output_regs.iter().take(8));
        output_regs = all;
    }
    CircSpec { input_regs: input_counts.to_vec(), insts, max_reg_count, output_regs, and_ops: ands }
}

fn push_bulk(
    (count, seed, _): (usize, u64, usize),
    max_reg_count: usize,
    set: &mut Vec<u32>,
    is_set: &mut Vec<bool>,
    insts: &mut Vec<(u32, GOp)>,
    ands: &mut usize,
) {
    let mut rng = Mix(seed);
    for k in 0..count {
        let a = set[rng.below(set.len())];
        let b = set[set.len() - 1 - rng.below(set.len().min(3))];
        let out = match is_set.iter().position(|s| !*s) {
            Some(u) => u as u32,
            None => rng.below(max_reg_count) as u32,
        };
        // mostly ANDs, with a NOT / XOR sprinkled in so that the AND chain does not collapse to 0
        insts.push((out, GOp::And(a, b)));
        *ands += 1;
        if !is_set[out as usize] {
            is_set[out as usize] = true;
            set.push(out);
        }
        if k % 3 == 2 {
            let x = set[rng.below(set.len())];
            let o2 = rng.below(max_reg_count) as u32;
            insts.push((o2, if k % 2 == 0 { GOp::Xor(out, x) } else { GOp::Not(out) }));
            if !is_set[o2 as usize] {
                is_set[o2 as usize] = true;
                set.push(o2);
            }
        }
    }
}

#[derive(Clone, Debug)]
pub struct CircParams {
    pub n_min: usize,
    pub n_max: usize,
    pub max_inputs_per_party: usize,
    pub max_gates: usize,
    /// candidate bulk AND counts (empty = never)
    pub bulk: Vec<usize>,
    /// probability (0..=255) of drawing a bulk circuit
    pub bulk_prob: u8,
    pub and_weight: u8,
    pub max_outputs: usize,
    /// upper bound of unused / fresh registers beyond the inputs
    pub max_extra_regs: usize,
    /// candidate register counts for "many registers" circuits (messages crossing 64 KiB); empty = never
    pub huge_regs: Vec<usize>,
}

impl Default for CircParams {
    fn default() -> Self {
        CircParams { n_min: 2, n_max: 5, max_inputs_per_party: 4, max_gates: 40, bulk: vec![], bulk_prob: 0, and_weight: 96, max_outputs: 6, max_extra_regs: 6, huge_regs: vec![] }
    }
}

impl CircParams {
    /// many inputs, many fresh registers, many (unique) outputs
    pub fn wide(n_min: usize, n_max: usize) -> Self {
        CircParams { n_min, n_max, max_inputs_per_party: 30, max_gates: 160, and_weight: 40, max_outputs: 160, max_extra_regs: 200, ..Default::default() }
    }
    /// few gates, tens of thousands of registers: every Vec<Option<..>> message exceeds 64 KiB
    pub fn huge_regs(n_min: usize, n_max: usize) -> Self {
        CircParams { n_min, n_max, max_gates: 12, huge_regs: vec![65_600, 70_000, 131_100], ..Default::default() }
    }
}

pub fn input_counts(n: usize, max_per: usize) -> impl Strategy<Value = Vec<usize>> {
    // zero-input parties with probability 1/4 each, at least one input overall
    proptest::collection::vec((0u8..4, 1..=max_per), n).prop_map(move |v| {
        let mut c: Vec<usize> = v.iter().map(|(z, k)| if *z == 0 { 0 } else { *k }).collect();
        if c.iter().all(|x| *x == 0) {
            c[0] = v[0].1;
        }
        c
    })
}

pub fn gen_circuit(p: CircParams) -> impl Strategy<Value = CircSpec> {
    let p2 = p.clone();
    (p.n_min..=p.n_max)
        .prop_flat_map(move |n| {
            let p = p2.clone();
            (
                input_counts(n, p.max_inputs_per_party),
                0usize..=p.max_extra_regs,
                // size classes: 0 gates .. max_gates
                prop_oneof![
                    1 => proptest::collection::vec(gate_desc(), 0..=3),
                    4 => proptest::collection::vec(gate_desc(), 1..=p.max_gates),
                ],
                (any::<u8>(), any::<u64>(), any::<u16>(), any::<u16>()),
                proptest::collection::vec(any::<u16>(), 1..=p.max_outputs),
                prop_oneof![1 => Just(0u8), 5 => Just(p.and_weight)],
            )
                .prop_map(move |(counts, extra, gates, (bp, bseed, bpos, bsel), outs, aw)| {
                    let bulk = if !p.bulk.is_empty() && bp < p.bulk_prob {
                        Some((p.bulk[idx(bsel, p.bulk.len())], bseed, idx(bpos, gates.len() + 1)))
                    } else {
                        None
                    };
                    // bulk circuits need scratch registers
                    let extra = if bulk.is_some() { extra + 3 } else { extra };
                    let extra = if !p.huge_regs.is_empty() { p.huge_regs[idx(bsel, p.huge_regs.len())] } else { extra };
                    build_circuit(&counts, extra.max(1), &gates, bulk, &outs, aw)
                })
        })
}

pub fn gen_inputs(input_regs: Vec<usize>) -> impl Strategy<Value = Vec<Vec<bool>>> {
    input_regs.into_iter().map(|c| proptest::collection::vec(any::<bool>(), c)).collect::<Vec<_>>()
}

/// Non-empty subset of 0..n from a bitmask (mapped so that shrinking goes to {0}).
pub fn subset_from_mask(mask: u32, n: usize) -> Vec<usize> {
    let m = mask % ((1u32 << n) - 1) + 1;
    (0..n).filter(|i| m >> i & 1 == 1).collect()
}
